"""Reference model for the LO electroweak / CKM weights (C02), written from the PDG formulae.

Independent of yadism.coefficient_functions.coupling_constants.
"""
import numpy as np

LEPTON = {  # name: (charge, T3, is W+ exchange in CC, effective helicity sign multiplying the card polarisation)
    "electron": (-1.0, -0.5, False, -1.0),
    "positron": (-1.0, -0.5, True, +1.0),
    "neutrino": (0.0, +0.5, True, +1.0),
    "antineutrino": (0.0, +0.5, False, -1.0),
}
PV_KINDS = ("F3", "gL", "g4")
LO_VANISHING = ("FL", "gL")


def quark(q):
    q = abs(q)
    return (2.0 / 3.0, 0.5) if q % 2 == 0 else (-1.0 / 3.0, -0.5)


def eta_gZ(Q2, MZ, s2, dcorr):
    return Q2 / (Q2 + MZ**2) / (4.0 * s2 * (1.0 - s2)) / (1.0 - dcorr)


def nc_weight(kind, q, Q2, process, proj, pol, s2, MZ, dcorr):
    """Weight multiplying x(q +/- qbar) at LO for quark q (sign for antiquarks handled by the caller)."""
    Ql, T3l, _, hs = LEPTON[proj]
    lam = hs * pol
    eq, T3q = quark(q)
    vq, aq = T3q - 2 * eq * s2, T3q
    vl, al = T3l - 2 * Ql * s2, T3l
    eta = 0.0 if process == "EM" else eta_gZ(Q2, MZ, s2, dcorr)
    if kind not in PV_KINDS:
        return (
            Ql**2 * eq**2
            + 2 * Ql * (vl + lam * al) * eta * eq * vq
            + (vl**2 + al**2 + 2 * lam * vl * al) * eta**2 * (vq**2 + aq**2)
        )
    return 2 * Ql * (al + lam * vl) * eta * eq * aq + (2 * vl * al + lam * (vl**2 + al**2)) * eta**2 * 2 * vq * aq


def ckm2(ckm):
    if isinstance(ckm, str):
        v = np.array([float(s) for s in ckm.split(" ")])
    else:
        v = np.array(ckm, dtype=float)
    return (v**2).reshape(3, 3)  # rows u,c,t ; cols d,s,b


def ckm_mask(component, nf=None):
    """Which |V|^2 entries belong to a heavyness component. component: 'light' (needs nf), 'charm','bottom','top'."""
    m = np.zeros((3, 3))
    if component == "light":
        if nf >= 3:
            m[0, 0] = m[0, 1] = 1
        if nf >= 4:
            m[1, 0] = m[1, 1] = 1
        if nf >= 5:
            m[0, 2] = m[1, 2] = 1
        if nf >= 6:
            m[2, :] = 1
    elif component == "charm":
        m[1, 0] = m[1, 1] = 1
    elif component == "bottom":
        m[0, 2] = m[1, 2] = 1
    elif component == "top":
        m[2, :] = 1
    else:
        raise ValueError(component)
    return m


def cc_weight(q, v2masked):
    """2 * sum |V|^2 over the row (up-type q) or column (down-type q) of the masked matrix."""
    q = abs(q)
    if q % 2 == 0:
        return 2.0 * v2masked[q // 2 - 1, :].sum()
    return 2.0 * v2masked[:, (q - 1) // 2].sum()


def cc_parton(q, proj):
    """The parton (pid with sign) of flavour q that couples to the W emitted by this projectile."""
    wplus = LEPTON[proj][2]
    down = q % 2 == 1
    # W+ hits down-type quarks and up-type antiquarks
    if wplus:
        return q if down else -q
    return -q if down else q
