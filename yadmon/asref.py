"""Reference model for the running coupling a = alpha_s/(4 pi): da/dln(mu^2) = -sum_k beta_k(nf) a^(k+2)."""
import numpy as np
from scipy.integrate import solve_ivp

Z3 = 1.2020569031595942


def betas(nf, nloops):
    b = [11.0 - 2.0 * nf / 3.0, 102.0 - 38.0 * nf / 3.0, 2857.0 / 2.0 - 5033.0 * nf / 18.0 + 325.0 * nf**2 / 54.0,
         (149753.0 / 6.0 + 3564.0 * Z3) - (1078361.0 / 162.0 + 6508.0 * Z3 / 27.0) * nf
         + (50065.0 / 162.0 + 6472.0 * Z3 / 81.0) * nf**2 + 1093.0 / 729.0 * nf**3]  # fmt: skip
    return b[:nloops]


def evolve(a0, mu2_0, mu2_1, nf, nloops):
    """Own integration (RK, tight tolerances) of the exact RGE at fixed nf from mu2_0 to mu2_1."""
    bs = betas(nf, nloops)

    def rhs(_t, a):
        return -sum(b * a ** (k + 2) for k, b in enumerate(bs))

    sol = solve_ivp(rhs, [np.log(mu2_0), np.log(mu2_1)], [a0], rtol=1e-11, atol=1e-14, method="DOP853")
    return float(sol.y[0, -1])


def eko_alphas(theory):
    """alpha_s(mu) from eko's Couplings configured from the card by this harness (eko is a trusted dependency): heavy-quark masses,
    matching ratios, mass scheme (POLE/MSBAR), evolution method, loop order and reference point all taken from the card; the number of
    flavours follows the scheme (NfFF for FFNS/FFN0/FONLL-*, threshold counting for ZM-VFNS)."""
    from eko.couplings import Couplings, couplings_mod_ev
    from eko.io import dictlike, runcards, types
    from eko.matchings import Atlas, nf_default
    from eko.quantities.heavy_quarks import MatchingScales, QuarkMassScheme

    new = runcards.Legacy(theory=dict(theory), operator={}).new_theory
    meth = runcards.Legacy.MOD_EV2METHOD.get(theory["ModEv"], theory["ModEv"])
    meth = couplings_mod_ev(dictlike.load_enum(types.EvolutionMethod, meth))
    m2 = [float(m) ** 2 for m, _ in new.heavy.masses]
    k2 = [float(k) ** 2 for k in new.heavy.matching_ratios]
    sc = Couplings(couplings=new.couplings, order=new.order, method=meth, masses=m2,
                   hqm_scheme=QuarkMassScheme.MSBAR if str(theory.get("HQ", "POLE")).upper() == "MSBAR" else QuarkMassScheme.POLE,
                   thresholds_ratios=k2)  # fmt: skip
    atlas = Atlas(matching_scales=MatchingScales([a * b for a, b in zip(m2, k2)]), origin=(theory["Qref"] ** 2, theory["nfref"]))
    if theory["FNS"] == "ZM-VFNS":
        return lambda mu: float(sc.a_s(mu * mu, nf_to=nf_default(mu * mu, atlas))) * 4.0 * np.pi
    nf = int(theory["NfFF"])
    return lambda mu: float(sc.a_s(mu * mu, nf_to=nf)) * 4.0 * np.pi
