"""Independent convolution / moment quadrature (the numerical oracle core, DESIGN §2 C01/C03).

Deliberately different from yadism.esf.conv: integration variable t = ln z, own break points derived from the grid
nodes, no epsilon cuts at the borders, plus-prescription written as sing*(p(xi/z) - z*p(xi)) dt, local term added
explicitly.
"""
import numpy as np
import scipy.integrate as si


ONE_MINUS = float(np.nextafter(1.0, 0.0))


def _pieces(rsl):
    a = rsl.args
    reg = (lambda z: rsl.reg(z, a["reg"])) if rsl.reg is not None else None
    sing = (lambda z: rsl.sing(z, a["sing"])) if rsl.sing is not None else None
    loc = (lambda x: rsl.loc(x, a["loc"])) if rsl.loc is not None else None
    return reg, sing, loc


def conv(rsl, xi, p, breaks_u=(), extra_z=(), epsrel=1e-11, limit=200):
    """(C (x) p)(xi) = int_xi^1 dz/z C(z) p(xi/z) for a function p(u) vanishing for u>1.

    breaks_u: values of u = xi/z where p is not smooth (grid nodes); extra_z: kinks of the kernel in z.
    Returns (value, abs_sum_of_terms, quad_error_estimate).
    """
    if xi >= 1.0:
        return 0.0, 0.0, 0.0
    reg, sing, loc = _pieces(rsl)
    pxi = p(xi)
    lo = np.log(xi)
    tb = {lo - np.log(u) for u in breaks_u if u > 0}
    tb |= {np.log(z) for z in extra_z if 0 < z < 1}
    brk = sorted(t for t in tb if lo < t < 0.0)
    # resolve the end-point behaviour at z->1 (ln^k(1-z)) and z->xi
    edges = [lo] + brk + [0.0]
    last = edges[-2]
    for d in (1e-2, 1e-5):
        if -d > last:
            edges.insert(-1, -d)
    tot = err = 0.0
    scale = 0.0
    if reg is not None or sing is not None:

        def integrand(t):
            z = np.exp(t)
            if z >= 1.0:
                z = np.nextafter(1.0, 0.0)
            u = xi / z
            pu = p(u) if u <= 1.0 else 0.0
            r = 0.0
            if reg is not None:
                r += reg(z) * pu
            if sing is not None:
                r += sing(z) * (pu - z * pxi)
            return r

        for a0, b0 in zip(edges[:-1], edges[1:]):
            v, e = si.quad(integrand, a0, b0, epsabs=1e-14, epsrel=epsrel, limit=limit)
            tot += v
            err += e
            scale += abs(v)
    if loc is not None:
        l = loc(xi) * pxi
        tot += l
        scale += abs(l)
    return tot, scale, err


def int_sing(rsl, x0, x1, absolute=False):
    """int_{x0}^{x1} sing(z) dz (or of |sing| with absolute=True: a cancellation-free scale)"""
    _, sing0, _ = _pieces(rsl)
    sing = (lambda z: abs(sing0(min(z, ONE_MINUS)))) if absolute else (lambda z: sing0(min(z, ONE_MINUS)))
    pts = [x for x in (1 - 1e-2, 1 - 1e-4, 1 - 1e-6) if x0 < x < x1]
    tot = err = 0.0
    edges = [x0] + pts + [x1]
    for a, b in zip(edges[:-1], edges[1:]):
        v, e = si.quad(sing, a, b, epsabs=1e-14, epsrel=1e-11, limit=200)
        tot += v
        err += e
    return tot, err


def moment(rsl, N, xsplit=None, zmax=1.0):
    """Mellin moment int_0^1 dz z^(N-1) C(z) of the distribution, evaluated with the distribution *split at xsplit*:

    M = int_x^1 reg z^(N-1) + int_x^1 sing (z^(N-1) - 1) + loc(x) + int_0^x (reg + sing) z^(N-1)
    which must not depend on x if the RSL is one well-defined distribution.  Real N only.
    """
    reg, sing, loc = _pieces(rsl)
    x = 0.0 if xsplit is None else xsplit

    def q(f0, a, b):
        if b <= a:
            return 0.0
        f = lambda z: f0(min(max(z, 1e-300), ONE_MINUS))  # noqa: E731  (quadrature nodes can round onto the end points)
        pts = sorted({a, b, *[y for y in (1e-6, 1e-3, 0.5, 1 - 1e-2, 1 - 1e-4, 1 - 1e-7) if a < y < b]})
        return sum(si.quad(f, u, v, epsabs=1e-14, epsrel=1e-11, limit=200)[0] for u, v in zip(pts[:-1], pts[1:]))

    tot = 0.0
    if reg is not None:
        tot += q(lambda z: reg(z) * z ** (N - 1), 0.0, min(1.0, zmax))
    if sing is not None:
        tot += q(lambda z: sing(z) * (z ** (N - 1) - 1.0), x, 1.0)
        tot += q(lambda z: sing(z) * z ** (N - 1), 0.0, x)
    if loc is not None:
        tot += loc(x if x > 0 else 0.0)
    return tot
