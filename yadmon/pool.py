"""Long-lived subprocess workers with a per-case watchdog (DESIGN §1.4).

Not multiprocessing.Pool: a dying child (segfault in compiled code, faulthandler abort) must make *that
case* non-conclusive and must never hang or poison the run.
"""
import json
import os
import queue
import select
import subprocess
import threading
import time

from . import env


class Worker:
    def __init__(self, mode, idx, logdir, extra_env=None):
        self.extra_env = extra_env or {}
        self.mode = mode
        self.idx = idx
        self.logdir = logdir
        self.proc = None
        self.buf = b""
        self.hello = None

    def start(self):
        self.logdir.mkdir(parents=True, exist_ok=True)
        self.logpath = self.logdir / f"worker-{self.mode}-{self.idx}.log"
        self.log = open(self.logpath, "ab")
        self.proc = subprocess.Popen(
            [env.PY, "-m", "yadmon.worker"],
            env=dict(env.worker_env(self.mode), **self.extra_env),
            stdin=subprocess.PIPE,
            stdout=subprocess.PIPE,
            stderr=self.log,
            cwd=str(env.VERIF),
        )
        self.buf = b""
        self.hello = self._readline(300)

    def _readline(self, timeout):
        """Return parsed JSON line, or None on timeout, or 'EOF'."""
        deadline = time.time() + timeout
        fd = self.proc.stdout.fileno()
        while b"\n" not in self.buf:
            left = deadline - time.time()
            if left <= 0:
                return None
            r, _, _ = select.select([fd], [], [], min(left, 5.0))
            if r:
                chunk = os.read(fd, 1 << 16)
                if not chunk:
                    return "EOF"
                self.buf += chunk
        line, self.buf = self.buf.split(b"\n", 1)
        try:
            return json.loads(line)
        except Exception:
            return {"status": "inconclusive", "reason": "harness: unparsable worker reply"}

    def kill(self):
        if self.proc is not None:
            try:
                self.proc.kill()
                self.proc.wait(timeout=10)
            except Exception:
                pass
            self.proc = None

    def tail(self, n=1500):
        try:
            with open(self.logpath, "rb") as f:
                f.seek(0, 2)
                size = f.tell()
                f.seek(max(0, size - n))
                return f.read().decode("utf8", "replace")
        except Exception:
            return ""

    def run(self, prop, case, timeout):
        if self.proc is None or self.proc.poll() is not None:
            self.start()
            if not isinstance(self.hello, dict) or not self.hello.get("ok"):
                h = self.hello
                self.kill()
                return {"status": "inconclusive", "reason": "worker-start-failed", "hello": h, "stderr": self.tail()}
        try:
            self.proc.stdin.write((json.dumps({"prop": prop, "case": case}) + "\n").encode())
            self.proc.stdin.flush()
        except Exception as e:
            self.kill()
            return {"status": "inconclusive", "reason": f"worker-pipe:{type(e).__name__}"}
        res = self._readline(timeout)
        if res is None:
            self.kill()
            return {"status": "inconclusive", "reason": "timeout", "timeout_s": timeout}
        if res == "EOF":
            rc = self.proc.wait()
            t = self.tail()
            self.proc = None
            return {"status": "crashed", "reason": f"worker-died rc={rc}", "stderr": t}
        return res

    def stop(self):
        if self.proc is not None and self.proc.poll() is None:
            try:
                self.proc.stdin.write(b'{"quit": true}\n')
                self.proc.stdin.flush()
                self.proc.wait(timeout=5)
            except Exception:
                pass
        self.kill()


class Pool:
    def __init__(self, prop, mode="jit", nworkers=None, case_timeout=600, extra_env=None):
        self.extra_env = extra_env
        self.prop = prop
        self.mode = mode
        self.n = nworkers or env.NCPU
        self.case_timeout = case_timeout
        self.logdir = env.WORK / "logs" / prop

    def map(self, cases, deadline=None, progress=None):
        """Run all cases; returns list of results (None for cases skipped because the wall budget ran out)."""
        results = [None] * len(cases)
        q = queue.Queue()
        for i, c in enumerate(cases):
            q.put((i, c))
        lock = threading.Lock()
        done = [0]

        def loop(widx):
            w = Worker(self.mode, widx, self.logdir, self.extra_env)
            try:
                while True:
                    if deadline is not None and time.time() > deadline:
                        return
                    try:
                        i, c = q.get_nowait()
                    except queue.Empty:
                        return
                    t0 = time.time()
                    to = c.get("timeout", self.case_timeout) if isinstance(c, dict) else self.case_timeout
                    r = w.run(self.prop, c, to)
                    r["_wall"] = round(time.time() - t0, 3)
                    results[i] = r
                    with lock:
                        done[0] += 1
                        if progress:
                            progress(done[0], len(cases))
            finally:
                w.stop()

        threads = [threading.Thread(target=loop, args=(k,), daemon=True) for k in range(min(self.n, max(1, len(cases))))]
        for t in threads:
            t.start()
        for t in threads:
            t.join()
        return results
