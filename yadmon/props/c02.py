"""C02 - LO parton model and electroweak/CKM weights: reference-model monitor on PTO=0 operators."""
import numpy as np

from .. import cards, ew, nfref, run

PROP = "C02"
LEVEL = "exploration"
RULE = (
    "seeded PTO=0 runs over (process, projectile, scheme, NfFF, EW box, CKM, polarisation, propagator correction, Q2) x "
    "kinds x heavyness x {x on node, x off node}; every parton row of the (0,0,0,0) tensor is compared with the PDG "
    "weight times x*p_j(x) (node: w*x*delta_jk). Distinct = (kind, heavyness, process, projectile, scheme, nf, x-class); "
    "non-trivial = at least one non-zero expected row was compared in that cell."
    " One case in six requests PTO 1..3 and judges the LO order of that run (weights chosen in order-dependent branches); CKM moduli are given as the usual string, a flat list or a 3x3 list."
)
ASSUMPTIONS = [
    "eko InterpolatorDispatcher/BasisFunction.evaluate_x is trusted for p_j(x) off nodes",
    "rows of a massive heavy quark itself (intrinsic kernels) are outside the parton-model statement and skipped (C01/C08 cover them)",
    "heavylight heavynesses are undocumented and not judged here",
]
RTOL = 1e-9  # round-off of eko's monomial-form basis polynomials (|t|^deg * eps), measured <= 6e-12
HEAVY = {"charm": 4, "bottom": 5, "top": 6}


def budget(tier):
    return 200 if tier == "quick" else 1200


def floor(tier):
    return dict(min_conclusive=30 if tier == "quick" else 800, min_nontrivial=40 if tier == "quick" else 300,
                classes=["node", "offnode", "NC", "EM", "CC"], min_compared=2000)  # fmt: skip


def cases(tier, rng):
    n = 120 if tier == "quick" else 20000
    out = []
    for i in range(n):
        process, proj = cards.process_projectile(rng)
        scheme = cards.pick(rng, cards.SCHEMES)
        nfff = int(rng.integers(3, 7)) if scheme in ("FFNS", "FFN0") else int(rng.integers(3, 6))
        th = dict(PTO=0, FNS=scheme, NfFF=nfff, **cards.rand_ew(rng))
        th["CKM"] = cards.rand_ckm(rng) if rng.random() < 0.8 else cards.CKM_PDG
        if i % 5 == 2:  # the card may also carry the moduli as a list (flat or 3x3), not only as the usual string
            v = [float(t) for t in th["CKM"].split(" ")]
            th["CKM"] = v if i % 10 == 2 else [v[0:3], v[3:6], v[6:9]]
        # masses: random but ordered; Q2 kept >= 4 ulp-safe away from thresholds by construction (factor 1.07)
        mc = float(rng.uniform(1.1, 1.9)); mb = float(rng.uniform(3.5, 5.5)); mt = float(rng.uniform(100.0, 200.0))
        th.update(mc=mc, mb=mb, mt=mt)
        if scheme == "ZM-VFNS" and rng.random() < 0.5:
            th.update(kcThr=float(rng.uniform(0.7, 2.0)), kbThr=float(rng.uniform(0.7, 2.0)), ktThr=float(rng.uniform(0.7, 1.5)))
            if th["kcThr"] * mc >= th["kbThr"] * mb:  # matching scales must stay ordered (the threshold table is searched by bisection)
                th["kcThr"], th["kbThr"] = min(th["kcThr"], th["kbThr"]), max(th["kcThr"], th["kbThr"])
        ng = (int(rng.integers(4, 12)), int(rng.integers(3, 9)))
        xg = cards.grid(*ng, x_min=cards.logu(rng, 1e-5, 1e-2), kind=cards.pick(rng, ["mixed", "mixed", "log", "lin"]))
        deg = int(rng.integers(1, min(5, len(xg) - 1) + 1))
        is_log = bool(rng.random() < 0.75)
        pts = []
        for _ in range(3):
            q2 = cards.logu(rng, 1.5, 2e5)
            # keep away from matching scales
            for s in [(th.get("kcThr", 1) * mc) ** 2, (th.get("kbThr", 1) * mb) ** 2, (th.get("ktThr", 1) * mt) ** 2]:
                if abs(q2 / s - 1) < 0.07:
                    q2 = s * 1.07
            k = int(rng.integers(0, len(xg) - 1))
            if rng.random() < 0.5:
                pts.append(dict(x=xg[k], Q2=q2, cls="node", k=k))
            else:
                f = float(rng.uniform(0.05, 0.95))
                x = xg[k] * (1 - f) + xg[k + 1] * f
                pts.append(dict(x=float(x), Q2=q2, cls="offnode", k=-1))
        if process == "CC":
            kinds = ["F2", "FL", "F3"]
        else:
            kinds = ["F2", "FL", "F3", "g1", "gL", "g4"]
        heav = ["total", "light"] + [cards.pick(rng, ["charm", "bottom", "top"])]
        if rng.random() < 0.3:
            heav = ["total", "light", "charm", "bottom", "top"]
        ob = dict(prDIS=process, ProjectileDIS=proj, PolarizationDIS=float(rng.uniform(-1, 1)) if rng.random() < 0.8 else 0.0,
                  PropagatorCorrection=float(rng.uniform(0, 0.5)) if rng.random() < 0.6 else 0.0)  # fmt: skip
        if rng.random() < 0.25:
            tz = float(rng.uniform(0, 1))
            ob["TargetDIS"] = "proton"  # weights are stated for the proton; targets are C12's business
        if i % 6 == 4:
            # the LO order of a higher-order run is the same parton-model expression (weights chosen in branches that depend on the
            # requested order are only reached this way); fewer observables and one point to keep the NNLO/N3LO convolutions cheap
            th["PTO"] = int(cards.pick(rng, [1, 2, 3, 3]))
            if th["PTO"] == 3 and scheme in ("FFNS", "FONLL-FFNS"):
                th["PTO"] = 2
            kinds = [["F2", "FL", "F3"][int(j)] for j in rng.choice(3, size=2, replace=False)]  # (polarised kinds stop at NNLO / lack the massive high-Q2 range)
            heav = ["total", "light", "charm", "bottom"] if rng.random() < 0.5 else ["total", cards.pick(rng, ["charm", "bottom", "top"])]
            pts = pts[:1]
            if len(xg) > 12:
                xg = cards.grid(int(rng.integers(4, 7)), int(rng.integers(3, 5)), x_min=cards.logu(rng, 1e-4, 1e-2))
                deg = min(deg, 3)
                k = int(rng.integers(0, len(xg) - 1))
                pts = [dict(x=xg[k], Q2=pts[0]["Q2"], cls="node", k=k)]
        out.append(dict(id=f"c02-{i}", theory=th, obs=ob, xgrid=xg, deg=deg, is_log=is_log, points=pts, kinds=kinds, heavyness=heav))
    return out


def expected_terms(kind, heavy, th, ob, Q2):
    """List of (pid, weight, chi_factor) the parton model predicts, plus the set of pids to skip.

    chi_factor multiplies x to give the convolution point (1 for massless, 1+m^2/Q^2 for CC massive production).
    """
    process, proj = ob["prDIS"], ob["ProjectileDIS"]
    nf = nfref.nf_light(th, Q2)
    massive = nfref.massive_quarks(th)
    skip = set()
    terms = []
    m2 = {4: th["mc"] ** 2, 5: th["mb"] ** 2, 6: th["mt"] ** 2}
    pv = kind in ew.PV_KINDS

    # which components enter
    comps = []  # ('light', nf) | ('single', h) | ('massive', h)
    if heavy in ("total", "light"):
        comps.append(("light", None))
    if heavy in HEAVY:
        h = HEAVY[heavy]
        if h <= nf and h not in massive:
            comps.append(("single", h))
    if heavy == "total":
        comps += [("massive", h) for h in massive if h > nf]
    elif heavy in HEAVY and HEAVY[heavy] in massive and HEAVY[heavy] > nf:
        comps.append(("massive", HEAVY[heavy]))

    for c, h in comps:
        # (unpolarised kinds only: no intrinsic polarised heavy quark exists in either massive scheme, those rows stay unjudged)
        asy = c == "massive" and "FFN0" in th["FNS"] and kind in ("F2", "FL", "F3")
        if c == "massive" and not asy:
            skip.update({h, -h})  # intrinsic rows of a massive quark: mass-dependent kinematic factors, outside the parton-model statement
        # (in the asymptotic schemes the heavy quark's own rows are the massless limit: the plain parton model, judged below)
        if process == "CC":
            v2 = ew.ckm2(th["CKM"])
            if c == "light":
                mask = ew.ckm_mask("light", nf)
                qs = range(1, nf + 1)
            else:
                mask = ew.ckm_mask({4: "charm", 5: "bottom", 6: "top"}[h])
                qs = range(1, nf + 1)
            chi = 1.0
            pref = 1.0
            if c == "massive" and "FFN0" not in th["FNS"]:
                # slow rescaling: F2 = 2 chi s(chi), FL = F2 - 2xF1 = (1-lam) F2, xF3 = lam * 2 chi s(chi)
                lam = 1.0 / (1.0 + m2[h] / Q2)
                chi = 1.0 / lam
                pref = {"F2": 1.0, "FL": 1.0 - lam, "F3": lam}[kind]
            elif kind in ew.LO_VANISHING:
                continue  # massless (and asymptotic, m->0) limit: Callan-Gross
            for q in list(qs) + ([h] if asy else []):
                w = ew.cc_weight(q, v2 * mask) * pref
                p = ew.cc_parton(q, proj)
                if pv and p < 0:
                    w = -w
                if w != 0.0:
                    terms.append((p, w, chi))
        else:
            if (c == "massive" and not asy) or kind in ew.LO_VANISHING:
                continue  # NC heavy production starts at NLO; FL, gL vanish at LO
            qs = range(1, nf + 1) if c == "light" else [h]
            for q in qs:
                w = ew.nc_weight(kind, q, Q2, process, proj, ob["PolarizationDIS"], th["SIN2TW"], th["MZ"], ob["PropagatorCorrection"])
                terms.append((q, w, 1.0))
                terms.append((-q, -w if pv else w, 1.0))
    return terms, skip, nf


def run_case(case):
    th = cards.theory(**case["theory"])
    obsd = {f"{k}_{h}": [dict(x=p["x"], Q2=p["Q2"]) for p in case["points"]] for k in case["kinds"] for h in case["heavyness"]}
    ob = cards.observables(obsd, xgrid=case["xgrid"], deg=case["deg"], is_log=case["is_log"], **case["obs"])
    out = run.run(th, ob)
    interp = run.interpolator(ob)
    xg = np.array(case["xgrid"])
    viol, nontrivial, classes = [], set(), set()
    compared = 0
    margin = 0.0
    sample = None
    for name, pts in obsd.items():
        kind, heavy = name.split("_")
        for p, res in zip(case["points"], out[name]):
            keys = list(res.orders.keys())
            if (0, 0, 0, 0) not in keys:
                viol.append(dict(sig=f"lo-key-missing|{kind}", what=f"{name}: no (0,0,0,0) order in PTO=0 output, keys={keys}"))
                continue
            got = res.orders[(0, 0, 0, 0)][0]
            terms, skip, nf = expected_terms(kind, heavy, th, ob, p["Q2"])
            exp = np.zeros_like(got)
            scale = np.zeros_like(got)
            for pid, w, chif in terms:
                chi = p["x"] * chif
                if chi >= 1.0 - 1e-9 and chif != 1.0:
                    continue  # beyond slow-rescaling end point: C09's business, row contribution is zero
                vec = run.basis_at(interp, chi)
                if p["cls"] == "node" and chif == 1.0:
                    # Kronecker delta up to the round-off of eko's monomial-form polynomials (|ln x|^deg * eps)
                    delta = np.zeros(len(xg))
                    delta[p["k"]] = 1.0
                    compared += len(xg)
                    if np.max(np.abs(vec - delta)) > 1e-7:
                        viol.append(dict(sig="node-not-delta", what=f"basis at node {p['k']} of grid is not a Kronecker delta: max dev {np.max(np.abs(vec-delta)):.3g}"))
                    dev = np.abs(got[run.pid_index(pid)] - w * chi * delta)
                    if np.max(dev) > 1e-7 * abs(w) * chi and len(terms) == len({t[0] for t in terms}):
                        viol.append(dict(sig=f"lo-node-delta|{kind}|{heavy}|{ob['prDIS']}", what=f"{name}: node row pid={pid} is not w*x*delta_jk (max dev {np.max(dev):.3g}, w*x={w*chi:.6g})"))
                exp[run.pid_index(pid)] += w * chi * vec
                scale[run.pid_index(pid)] += abs(w) * chi * np.abs(vec)
            if p["x"] >= 1 - 1e-9:
                continue
            rows = [i for i, pid in enumerate(cards.PIDS) if pid not in skip]
            s = max(float(scale.max()), p["x"] * 1e-3)
            m, d = run.cmp(got[rows], exp[rows], s, RTOL)
            compared += len(rows) * got.shape[1]
            cell = f"{kind}|{heavy}|{ob['prDIS']}|{ob['ProjectileDIS']}|{th['FNS']}|nf{nf}|{p['cls']}"
            classes.update([p["cls"], ob["prDIS"]])
            if np.any(exp[rows] != 0):
                nontrivial.add(cell)
            if m > 1.0:
                bad = np.unravel_index(np.argmax(np.abs(got[rows] - exp[rows])), got[rows].shape)
                pid = cards.PIDS[rows[bad[0]]]
                viol.append(dict(
                    sig=f"lo-weight|{kind}|{heavy}|{ob['prDIS']}",
                    what=f"{name} {ob['prDIS']}/{ob['ProjectileDIS']} {th['FNS']} nf={nf} x={p['x']:.6g} Q2={p['Q2']:.6g}: row pid={pid} node j={int(bad[1])} "
                         f"observed {got[rows][bad]:.12g} expected {exp[rows][bad]:.12g}",
                    detail=dict(point=p, pid=pid, j=int(bad[1]), observed=float(got[rows][bad]), expected=float(exp[rows][bad]), margin=m),
                ))  # fmt: skip
            else:
                margin = max(margin, m)
                if sample is None and np.any(exp != 0):
                    i, j = np.unravel_index(np.argmax(np.abs(exp)), exp.shape)
                    sample = dict(obs=name, x=p["x"], Q2=p["Q2"], nf=nf, pid=cards.PIDS[i], node=int(j), observed=float(got[i, j]), expected=float(exp[i, j]))
    return dict(violations=viol, compared=compared, nontrivial=sorted(nontrivial), classes=sorted(classes), margin=margin, sample=sample)
