"""C15 - serialised output round-trips losslessly (tar and YAML), for real runner outputs."""
import io
import os
import shutil
import tempfile

import numpy as np

from .. import cards, pdfs, run

PROP = "C15"
LEVEL = "exploration"
RULE = (
    "real runner outputs (SF+XS mixes, PTO 0..2 with SV keys, TMC, observables with an empty kinematics list, a None-valued "
    "observable) are sent through chains of dump/load: tar x3, yaml x3, tar->yaml->tar, yaml->tar->yaml; after every load the "
    "object is compared field by field with the original (observable set, per point x,Q2,y,nf, order keys and their order, "
    "values and errors with array_equal, grid/log/degree/pids/projectilePID, both cards) and through predictions for a random "
    "PDF (bit-identical). Distinct = (chain, has XS, has empty, has None, PTO, TMC); non-trivial = at least one non-zero tensor went through the chain."
    " One case in four hands the runner cards carrying numpy objects (interpolation_xgrid as array, kinematics as numpy scalars): the cards read back must equal the given ones value by value. Every case also writes a tar archive with runcards=False, which must load again with the same operators and predictions and no cards."
    " After the chain a second output of the same shape (other numbers and card) is written over the same tar / YAML path (file-based API) and must be what is read back."
)
ASSUMPTIONS = ["cards are made of plain YAML-representable python types or numpy arrays / scalars (what the runner accepts; the repository's own tests hand the grid over as an array)"]
CHAINS = ["ttt", "yyy", "tyt", "yty"]


def budget(tier):
    return 240 if tier == "quick" else 1500


def floor(tier):
    return dict(min_conclusive=30 if tier == "quick" else 500, min_nontrivial=16 if tier == "quick" else 60,
                classes=CHAINS + ["xs", "empty", "none", "overwrite", "numpy-card", "no-runcards"], min_compared=500)  # fmt: skip


def cases(tier, rng):
    n = 64 if tier == "quick" else 4000
    out = []
    for i in range(n):
        cfg = cards.rand_config(rng, ptos=(0, 1, 1, 2), sv=True)
        tmc = int(cards.pick(rng, [0, 0, 1, 3]))
        cfg["theory"]["TMC"] = tmc
        g = cards.rand_grid(rng)
        kinds = [k for k in cfg["kinds"] if not (tmc and k in ("gL", "g4"))]
        names = list(dict.fromkeys(f"{cards.pick(rng, kinds)}_{cards.pick(rng, ['total', 'light', 'charm'])}" for _ in range(3)))
        flags = dict(xs=bool(rng.random() < 0.6), empty=bool(rng.random() < 0.35), none=bool(rng.random() < 0.25))
        if flags["xs"]:
            names.append(f"{cards.pick(rng, ['XSHERANC', 'XSHERACC', 'XSCHORUSCC', 'F1', 'FW', 'XSFPFCC'])}_{cards.pick(rng, ['total', 'charm'])}")
        pts = cards.rand_points(rng, g["xgrid"], n=int(rng.integers(1, 4)), q2lo=4.0, q2hi=2e3, xmax=0.7)
        for p in pts:
            p["x"] = float(max(p["x"], min(0.4, g["xgrid"][1] * 2.0)))
            p["y"] = float(rng.uniform(0.1, 0.9))
        flags["numpy"] = bool((i // 4) % 4 == 1)
        out.append(dict(id=f"c15-{i}", names=names, points=pts, flags=flags, chain=CHAINS[i % 4], grid=g,
                        pdf=pdfs.SmoothPDF.random(rng, q2slope=float(rng.uniform(-0.1, 0.1))), **cfg))  # fmt: skip
    return out


def listify(v):
    return v.tolist() if isinstance(v, np.ndarray) else (list(v) if isinstance(v, (list, tuple)) else v)


def plain(c):
    """the card value by value, numpy arrays and scalars as the lists / numbers they stand for"""
    if isinstance(c, dict):
        return {k: plain(v) for k, v in c.items()}
    if isinstance(c, (list, tuple)):
        return [plain(v) for v in c]
    if isinstance(c, (np.ndarray, np.generic)):
        return c.tolist()
    return c


def compare(orig, new, stage, cards_expected=True):
    """Yield human readable differences between two Output objects."""
    ko, kn = list(orig.keys()), list(new.keys())
    if sorted(map(str, ko)) != sorted(map(str, kn)):
        yield "keys", f"{stage}: key set differs: {sorted(map(str, ko))} vs {sorted(map(str, kn))}"
        return
    import yadism.observable_name as on

    for k in ko:
        a, b = orig[k], new[k]
        if on.ObservableName.is_valid(k):
            if a is None or b is None:
                if not (a is None and b is None):
                    yield "none", f"{stage}: observable {k}: None became {type(b).__name__}" if a is None else f"{stage}: observable {k} became None"
                continue
            if len(a) != len(b):
                yield "length", f"{stage}: observable {k}: {len(a)} points became {len(b)}"
                continue
            for i, (ra, rb) in enumerate(zip(a, b)):
                if type(ra).__name__ != type(rb).__name__:
                    yield "type", f"{stage}: {k}[{i}] type {type(ra).__name__} became {type(rb).__name__}"
                for f in ("x", "Q2", "y", "nf"):
                    va, vb = getattr(ra, f, None), getattr(rb, f, None)
                    if not (va == vb or (va is None and vb is None)):
                        yield "kin", f"{stage}: {k}[{i}].{f}: {va!r} became {vb!r}"
                eq, why = run.same_bits(ra, rb)
                if not eq:
                    yield "tensor", f"{stage}: {k}[{i}]: {why}"
        elif k == "xgrid":
            if listify(a["grid"]) != listify(b["grid"]) or a["log"] != b["log"]:
                yield "xgrid", f"{stage}: xgrid differs"
        else:
            if listify(a) != listify(b):
                yield "meta", f"{stage}: field {k}: {listify(a)!r} became {listify(b)!r}"
    if not cards_expected:
        if new.theory is not None or new.observables is not None:
            yield "cards", f"{stage}: an archive written without run cards came back with cards"
        return
    ot, ob_ = plain(orig.theory), plain(orig.observables)
    if ot != plain(new.theory):
        yield "theory", f"{stage}: theory card differs: " + str({k: (ot.get(k), (new.theory or {}).get(k)) for k in ot if (new.theory or {}).get(k) != ot.get(k)})[:300]
    if ob_ != plain(new.observables):
        yield "observables", f"{stage}: observables card differs"


def run_case(case):
    yad = run.yad()
    from yadism.output import Output

    th = cards.theory(**case["theory"])
    g = case["grid"]
    flags = case["flags"]
    obsd = {}
    for n in case["names"]:
        isxs = n.split("_")[0] in cards.XSS
        obsd[n] = [dict(x=p["x"], Q2=p["Q2"], **({"y": p["y"]} if isxs else {})) for p in case["points"]]
    if flags["empty"]:
        obsd["FL_bottom" if "FL_bottom" not in obsd else "F2_top"] = []
    ob = cards.observables(obsd, xgrid=g["xgrid"], deg=g["deg"], is_log=g["is_log"], **case["obs"])
    if flags.get("numpy"):
        # the same cards with numpy objects in them (a grid built with numpy, kinematics taken from an array)
        ob["interpolation_xgrid"] = np.array(ob["interpolation_xgrid"])
        for n in obsd:
            ob["observables"][n] = [{k: np.float64(v) for k, v in p.items()} for p in ob["observables"][n]]
        th["mc"] = np.float64(th["mc"])
        th["PTODIS"] = np.int64(th["PTODIS"])
    orig = yad.run_yadism(th, ob)
    if flags["none"]:
        orig["F3_top" if "F3_top" not in orig else "F2_toplight"] = None
    pdf = pdfs.make(case["pdf"])
    pred0 = orig.apply_pdf_alphas_alphaqed_xir_xif(pdf, lambda q: 0.2, lambda q: 0.0078, 1.3, 0.8)
    viol, classes = [], {case["chain"]}
    classes.update(k for k in ("xs", "empty", "none") if flags[k])
    if flags.get("numpy"):
        classes.add("numpy-card")
    compared = 0
    tmp = tempfile.mkdtemp(prefix="yadmon-c15-", dir=os.environ.get("VERIF_TMP"))
    try:
        cur = orig
        for step, fmt in enumerate(case["chain"]):
            stage = f"after {'->'.join(case['chain'][:step+1])}"
            try:
                if fmt == "t":
                    path = os.path.join(tmp, f"s{step}.tar")
                    cur.dump_tar(path)
                    cur = Output.load_tar(path)
                else:
                    s = cur.dump_yaml()
                    cur = Output.load_yaml(io.StringIO(s))
            except Exception as e:
                viol.append(dict(sig=f"roundtrip-raises|{'tar' if fmt=='t' else 'yaml'}|{run.exc_sig(e)}", what=f"{stage}: {'tar' if fmt=='t' else 'yaml'} dump/load raised {type(e).__name__}: {e} (empty={flags['empty']}, none={flags['none']})"))
                break
            for kind_, msg in compare(orig, cur, stage):
                viol.append(dict(sig=f"roundtrip-{kind_}|{'tar' if fmt=='t' else 'yaml'}", what=msg))
            compared += sum(len(v) for k, v in orig.items() if isinstance(v, list) and k in obsd) + 6
            pred = cur.apply_pdf_alphas_alphaqed_xir_xif(pdf, lambda q: 0.2, lambda q: 0.0078, 1.3, 0.8)
            if {k: v for k, v in pred.items()} != {k: v for k, v in pred0.items()}:
                viol.append(dict(sig=f"roundtrip-prediction|{'tar' if fmt=='t' else 'yaml'}", what=f"{stage}: predictions for a test PDF differ from the original output's"))
            compared += sum(len(v) for v in pred0.values())
        # an archive written without the run cards (dump_tar's runcards=False) is still an archive the library must read back
        if not viol:
            path = os.path.join(tmp, "nocards.tar")
            try:
                orig.dump_tar(path, runcards=False)
                back = Output.load_tar(path)
            except Exception as e:
                viol.append(dict(sig=f"roundtrip-raises|tar-no-runcards|{run.exc_sig(e)}", what=f"dump_tar(runcards=False) followed by load_tar raised {type(e).__name__}: {e}"))
            else:
                for kind_, msg in compare(orig, back, "after tar without run cards", cards_expected=False):
                    viol.append(dict(sig=f"roundtrip-{kind_}|tar-no-runcards", what=msg))
                pred = back.apply_pdf_alphas_alphaqed_xir_xif(pdf, lambda q: 0.2, lambda q: 0.0078, 1.3, 0.8)
                if dict(pred.items()) != dict(pred0.items()):
                    viol.append(dict(sig="roundtrip-prediction|tar-no-runcards", what="predictions of the output read back from an archive without run cards differ from the original's"))
                compared += sum(len(v) for v in pred0.values()) + 6
                classes.add("no-runcards")
        # history: a loader must read the file it is given, whatever was dumped to or loaded from the same path before. A sibling output
        # (same shape, different numbers and card) is written over the last path used and read back (tar and YAML files alike).
        if not viol:
            import copy

            sib = copy.deepcopy(orig)
            sib.theory["Comments"] = "sibling output written over the same path"
            for k in obsd:
                for r in sib[k] or []:
                    for o in list(r.orders):
                        v, e = r.orders[o]
                        r.orders[o] = (np.asarray(v) * 1.5 + 0.25, np.asarray(e) * 2.0)
            for fmt in ("t", "y"):
                path = os.path.join(tmp, "same.tar" if fmt == "t" else "same.yaml")
                try:
                    first = None
                    for obj in (orig, sib):
                        if fmt == "t":
                            obj.dump_tar(path)
                            back = Output.load_tar(path)
                        else:
                            obj.dump_yaml_to_file(path)
                            back = Output.load_yaml_from_file(path)
                        first = first if first is not None else back
                except Exception as e:
                    viol.append(dict(sig=f"roundtrip-raises|{'tar' if fmt=='t' else 'yaml'}-file|{run.exc_sig(e)}", what=f"dump/load through the file {os.path.basename(path)} raised {type(e).__name__}: {e}"))
                    continue
                for kind_, msg in compare(sib, back, f"second output written over {os.path.basename(path)}"):
                    viol.append(dict(sig=f"roundtrip-history|{'tar' if fmt=='t' else 'yaml'}|{kind_}", what=msg + " (the file was overwritten with a different output of the same shape after a first dump/load cycle)"))
                # ... and an object loaded earlier stays what it was, whatever has been loaded since (state kept on the class, shared buffers)
                for kind_, msg in compare(orig, first, f"first object loaded from {os.path.basename(path)}, after a second load"):
                    viol.append(dict(sig=f"roundtrip-history|{'tar' if fmt=='t' else 'yaml'}|earlier-object|{kind_}", what=msg + " (an object loaded earlier changed when another archive was loaded)"))
                compared += 2 * sum(len(v) for k, v in orig.items() if isinstance(v, list) and k in obsd) + 12
            classes.add("overwrite")
    finally:
        shutil.rmtree(tmp, ignore_errors=True)
    nz = any(run.absmax(v[0]) > 0 for k in obsd for r in (orig[k] or []) for v in r.orders.values())
    nontrivial = [f"{case['chain']}|xs{int(flags['xs'])}|empty{int(flags['empty'])}|none{int(flags['none'])}|pto{th['PTODIS']}|tmc{th['TMC']}"] if nz else []
    sample = dict(chain=case["chain"], observables={k: len(v) for k, v in obsd.items()}, flags=flags, n_pred=sum(len(v) for v in pred0.values()))
    return dict(violations=viol, compared=compared, nontrivial=nontrivial, classes=sorted(classes), sample=sample)
