"""C16 - every documented configuration yields a finite result or a clear rejection: outcome classifier over the lattice."""
import itertools
import linecache
import traceback

import numpy as np

from .. import cards, run

PROP = "C16"
LEVEL = "exploration"
RULE = (
    "lattice kind(6 SF + 10 XS) x heavyness(8) x process(3) x scheme(5) x PTO(0..3): thorough enumerates all 7680 cells (each four times, with independent draws of the other factors), quick a seeded "
    "sample of them; projectile, NfFF, TMC 0..3, n3lo variation, SV switches, target and kinematics are drawn per cell. Each run is "
    "classified from its result or traceback: finite (all values and errors of all order keys finite) / explicit rejection (innermost frame "
    "is a 'raise' statement with a message, in yadism or in a dependency) / internal failure (anything else, incl. a dead worker). "
    "(domain) requests with x<=0, x>1, Q2<=0, x below the grid, NaN or inf kinematics - for SF and XS alike - must end in an explicit "
    "rejection. Distinct = lattice cell x outcome class; non-trivial = the run returned a finite non-zero operator, or a rejection was observed."
    " Long sessions: one process serves 72 distinct (x, Q2) points of a massive observable and then four ordinary requests of other kinds; all must be finite or explicitly rejected. An exception counts as explicit rejection only if raised by the package or one of its physics libraries (LeProHQ, adani, eko), never by scipy/numpy."
)
ASSUMPTIONS = ["an exception is an explicit rejection iff its innermost traceback frame is a raise statement carrying a message (decided from the traceback and linecache, not from the exception type)",
               "a watchdog timeout is inconclusive, never a violation"]  # fmt: skip
CASE_TIMEOUT = 900
KINDS = cards.SFS + cards.XSS
PROCS = ["EM", "NC", "CC"]
BADKIN = [("x=0", dict(x=0.0)), ("x<0", dict(x=-0.1)), ("x>1", dict(x=1.0000001)), ("Q2=0", dict(Q2=0.0)), ("Q2<0", dict(Q2=-4.0)),
          ("x<grid", dict(x="below")), ("x<grid-1e-9", dict(x="below-1e-9")), ("x<grid-1e-6", dict(x="below-1e-6")), ("x<grid-ulp", dict(x="below-ulp")), ("x=nan", dict(x=float("nan"))), ("Q2=nan", dict(Q2=float("nan"))), ("Q2=inf", dict(Q2=float("inf"))),
          ("x=inf", dict(x=float("inf"))), ("x=-inf", dict(x=float("-inf")))]  # fmt: skip


def budget(tier):
    return 285 if tier == "quick" else 1750


def floor(tier):
    return dict(min_conclusive=400 if tier == "quick" else 6000, min_nontrivial=300 if tier == "quick" else 4000,
                classes=["finite", "rejected", "domain", "extreme-kinematics", "session"] + PROCS + cards.SCHEMES, min_compared=400)  # fmt: skip


def cases(tier, rng):
    cells = list(itertools.product(KINDS, cards.HEAVYNESS, PROCS, cards.SCHEMES, (0, 1, 2, 3)))
    if tier == "quick":
        idx = rng.permutation(len(cells))[:1100]
        cells = [cells[i] for i in sorted(idx)]
    else:
        cells = cells * 4  # every cell four times, with independent draws of the other factors
    out = []
    for n, (kind, heavy, proc, scheme, pto) in enumerate(cells):
        proj = cards.pick(rng, cards.PROJECTILES)
        nfff = int(rng.integers(3, 7)) if scheme in ("FFNS", "FFN0") else int(rng.integers(3, 6))
        tmc = int(cards.pick(rng, [0, 0, 1, 2, 3]))
        th = dict(PTO=pto, FNS=scheme, NfFF=nfff, TMC=tmc, n3lo_cf_variation=int(cards.pick(rng, [0, 0, -1, 1])),
                  RenScaleVar=bool(rng.random() < 0.4), FactScaleVar=bool(rng.random() < 0.4), FONLLParts=cards.pick(rng, ["full", "full", "massless", "massive"]))  # fmt: skip
        ob = dict(prDIS=proc, ProjectileDIS=proj)
        if rng.random() < 0.3:
            ob["TargetDIS"] = cards.pick(rng, cards.TARGETS)
        if rng.random() < 0.3:
            ob["PolarizationDIS"] = float(rng.uniform(-1, 1))
        if proc != "CC" and rng.random() < 0.15:
            ob["NCPositivityCharge"] = cards.pick(rng, ["all", "d", "u", "s", "c", "b", "t"])
        x = float(cards.pick(rng, [cards.logu(rng, 2e-3, 0.1), float(rng.uniform(0.1, 0.8)), 0.05]))
        q2 = cards.logu(rng, 1.5, 3e3)
        extreme = bool(rng.random() < 0.12)
        if extreme:
            # very small x at very large Q2 (grid reaching down to 1e-7): where the massive library overflows (F-17) the documented
            # clean-up must still hand back finite numbers
            x, q2 = cards.logu(rng, 2e-7, 1e-5), cards.logu(rng, 1e4, 1e6)
        out.append(dict(id=f"c16-{n}", mode="lattice", kind=kind, heavy=heavy, theory=th, obs=ob, point=dict(x=x, Q2=q2, y=float(rng.uniform(0.05, 0.95))), extreme=extreme, bare=bool(rng.random() < 0.2), timeout=CASE_TIMEOUT))
    # domain clause: every (kind, bad value) pair, the other factors drawn
    n = 0
    for rep in range(1 if tier == "quick" else 6):
        for kind in ["F2", "FL", "F3", "g1"] + cards.XSS:
            for label, bad in BADKIN:
                proc = cards.pick(rng, ["EM", "NC"]) if kind in ("g1", "g5") else cards.pick(rng, PROCS)
                th = dict(PTO=int(cards.pick(rng, [0, 1])), FNS=cards.pick(rng, cards.SCHEMES), NfFF=4, TMC=int(cards.pick(rng, [0, 0, 1, 2, 3])) if kind != "g5" else 0)
                out.append(dict(id=f"c16-d{n}", mode="domain", label=label, bad=bad, kind=kind, heavy=cards.pick(rng, ["total", "light", "charm"]), theory=th,
                                obs=dict(prDIS=proc, ProjectileDIS=cards.pick(rng, cards.PROJECTILES)), point=dict(x=0.1, Q2=20.0, y=float(cards.pick(rng, [0.5, 0.13, 1.0]))), timeout=300))  # fmt: skip
                n += 1
    # anchors: the two configurations known to produce non-finite numbers inside the run (F-17/F-26: dependency overflow at x = 1e-6,
    # Q2/m2 ~ 1e6); what reaches the caller must still be finite, with or without a heavy observable in the request
    for k, (kind_, proc_) in enumerate((("FL", "EM"), ("F3", "NC"))):
        out.append(dict(id=f"c16-x{k}", mode="lattice", kind=kind_, heavy="light", theory=dict(PTO=2, FNS="FFNS", NfFF=3, TMC=0), obs=dict(prDIS=proc_, ProjectileDIS="electron"),
                        point=dict(x=1e-6, Q2=2.0e6, y=0.5), extreme=True, bare=False, timeout=CASE_TIMEOUT))  # fmt: skip
    # long sessions: one process serves a card with many distinct (Q2, m) points of a massive observable and then ordinary requests of
    # other kinds - state that grows with every point served (a shared list, a table that fills up) only shows after dozens of points
    for k in range(2 if tier == "quick" else 24):
        sch = cards.pick(rng, ["FFNS", "FONLL-FFNS", "FFNS"])
        out.append(dict(id=f"c16-s{k}", mode="session", kind=cards.pick(rng, ["F2", "FL"]), heavy=cards.pick(rng, ["charm", "total"]), theory=dict(PTO=1, FNS=sch, NfFF=3, TMC=0), obs=dict(prDIS=cards.pick(rng, ["NC", "EM"]), ProjectileDIS="electron"),
                        point=dict(x=0.1, Q2=10.0, y=0.5), q2s=[float(q) for q in np.exp(rng.uniform(np.log(4.0), np.log(2e4), 72))], xs=[float(x) for x in rng.uniform(0.01, 0.6, 72)], timeout=CASE_TIMEOUT))  # fmt: skip

    return out


def classify_exception(e):
    """('rejected'|'internal', signature, text)"""
    tb = traceback.extract_tb(e.__traceback__)
    fr = tb[-1] if tb else None
    line = ""
    where = "?"
    if fr is not None:
        line = (fr.line or linecache.getline(fr.filename, fr.lineno)).strip()
        where = f"{fr.filename.split('/')[-1]}:{fr.name}"
    msg = str(e)
    # ... raised by the package itself or by one of the physics libraries it delegates to (which do state their limits: LeProHQ's "High
    # virtuality limit ... is not known"); a complaint of a general-purpose library about the arguments it was handed (scipy.quad about its
    # break points, numpy about bins) says nothing about the request and is an internal failure
    own = fr is not None and any(t in fr.filename for t in ("/yadism/", "/LeProHQ/", "/adani/", "/eko/", "/ekore/"))
    explicit = own and line.startswith("raise ") and len(msg.strip()) >= 8 and not isinstance(e, (KeyError, IndexError, AttributeError, TypeError, ZeroDivisionError, ImportError))
    return ("rejected" if explicit else "internal"), f"{type(e).__name__}@{where}", f"{type(e).__name__}: {msg[:160]} [{where}: {line[:80]}]"


def run_session(case):
    th = cards.theory(**case["theory"])
    xg = cards.grid(5, 4, x_min=1e-3)
    name = f"{case['kind']}_{case['heavy']}"
    steps = [(name, th, dict(case["obs"]), [dict(x=x, Q2=q) for x, q in zip(case["xs"], case["q2s"])])]
    steps += [("F2_total", cards.theory(PTO=2, FNS="ZM-VFNS"), dict(prDIS="NC", ProjectileDIS="electron"), [dict(x=0.2, Q2=30.0)]),
              ("FL_light", cards.theory(PTO=1, FNS="ZM-VFNS", TMC=1), dict(prDIS="EM", ProjectileDIS="electron"), [dict(x=0.3, Q2=12.0)]),
              ("XSHERANC_total", cards.theory(PTO=1, FNS="FONLL-FFN0", NfFF=4), dict(prDIS="NC", ProjectileDIS="positron"), [dict(x=0.05, Q2=90.0, y=0.4)]),
              ("F3_charm", cards.theory(PTO=1, FNS="FFNS", NfFF=3), dict(prDIS="CC", ProjectileDIS="neutrino"), [dict(x=0.15, Q2=25.0)])]  # fmt: skip
    viol, nontrivial = [], []
    served = 0
    for k, (nm, th_, ob_, pts) in enumerate(steps):
        try:
            out = run.run(th_, cards.observables({nm: pts}, xgrid=xg, deg=2, **ob_))
            finite = all(np.all(np.isfinite(np.asarray(v[0], dtype=float))) for r in out[nm] for v in r.orders.values())
            served += len(pts)
            if not finite:
                viol.append(dict(sig=f"session-nonfinite|step{min(k,1)}", what=f"long session, request {k} ({nm}, {th_['FNS']}): non-finite entries after {served} points served in this process"))
            else:
                nontrivial.append(f"session|{case['theory']['FNS']}|{case['kind']}|{case['heavy']}|step{k}")
        except Exception as e:  # noqa: BLE001
            outcome, sig, text = classify_exception(e)
            viol.append(dict(sig=f"session-{'rejected' if outcome == 'rejected' else 'crash'}|{sig}", what=f"long session, request {k} ({nm}, {th_['FNS']}, {len(pts)} point(s)) after {served} points served in this process: a supported request ends in {text}"))
            break
    return dict(violations=viol, compared=len(steps), nontrivial=nontrivial, classes=["session"], sample=dict(session=name, scheme=case["theory"]["FNS"], distinct_Q2=len(set(case["q2s"])), requests=len(steps), points_served=served))


def run_case(case):
    if case["mode"] == "session":
        return run_session(case)
    th = cards.theory(**case["theory"])
    name = f"{case['kind']}_{case['heavy']}"
    if case.get("bare") and case["heavy"] == "total":
        name = case["kind"]  # a bare kind is the documented spelling of <kind>_total
    isxs = case["kind"] in cards.XSS
    p = dict(case["point"])
    xg = cards.grid(5, 4, x_min=1e-3) if not case.get("extreme") else cards.grid(7, 4, x_min=1e-7)
    if case["mode"] == "domain":
        for k, v in case["bad"].items():
            if isinstance(v, str):
                v = {"below": xg[0] * 0.5, "below-1e-9": xg[0] * (1 - 1e-9), "below-1e-6": xg[0] * (1 - 1e-6), "below-ulp": float(np.nextafter(xg[0], 0))}[v]
            p[k] = v
    kin = dict(x=p["x"], Q2=p["Q2"], **({"y": p["y"]} if isxs else {}))
    ob = cards.observables({name: [kin]}, xgrid=xg, deg=2, **case["obs"])
    cell = f"{case['kind']}|{case['heavy']}|{case['obs']['prDIS']}|{th['FNS']}|pto{th['PTODIS']}"
    classes = {case["obs"]["prDIS"], th["FNS"]}
    if case.get("extreme"):
        classes.add("extreme-kinematics")
    viol, nontrivial = [], []
    outcome, text = None, ""
    try:
        out = run.run(th, ob)
        res = out[name][0]
        finite = all(np.all(np.isfinite(np.asarray(v[0], dtype=float))) and np.all(np.isfinite(np.asarray(v[1], dtype=float))) for v in res.orders.values())
        nz = any(run.absmax(v[0]) > 0 for v in res.orders.values())
        outcome = "finite" if finite else "nonfinite"
        if not finite:
            bad = [run.key(o) for o, v in res.orders.items() if not np.all(np.isfinite(np.asarray(v[0], dtype=float)))]
            text = f"non-finite entries in order keys {bad[:4]}"
    except Exception as e:  # noqa: BLE001 - classified below
        outcome, sig, text = classify_exception(e)
        nz = False
    if case["mode"] == "lattice":
        if outcome == "finite":
            classes.add("finite")
            if nz:
                nontrivial.append(cell + "|finite")
        elif outcome == "rejected":
            classes.add("rejected")
            nontrivial.append(cell + "|rejected")
        elif outcome == "nonfinite":
            viol.append(dict(sig=f"nonfinite|{case['kind']}|{'asy' if 'FFN0' in th['FNS'] else 'std'}|pto{th['PTODIS']}|tmc{int(bool(th['TMC']))}", what=f"{name} {case['obs']['prDIS']}/{case['obs']['ProjectileDIS']} {th['FNS']} NfFF={th['NfFF']} PTO={th['PTODIS']} TMC={th['TMC']} x={p['x']:.5g} Q2={p['Q2']:.5g}: {text}"))
        else:
            viol.append(dict(sig=f"crash|{sig}", what=f"{name} {case['obs']['prDIS']}/{case['obs']['ProjectileDIS']} {th['FNS']} NfFF={th['NfFF']} PTO={th['PTODIS']} TMC={th['TMC']}: internal failure {text}"))
    else:
        classes.add("domain")
        if outcome == "rejected":
            nontrivial.append(f"domain|{case['label']}|{'xs' if isxs else 'sf'}|tmc{int(bool(th['TMC']))}")
        elif outcome in ("finite", "nonfinite"):
            viol.append(dict(sig=f"domain-accepted|{case['label']}|{'xs' if isxs else 'sf'}", what=f"{name} TMC={th['TMC']}: kinematics {kin} ({case['label']}) were accepted and returned a {'finite' if outcome=='finite' else 'NON-FINITE'} operator instead of being rejected"))
        else:
            viol.append(dict(sig=f"domain-crash|{case['label']}|{sig}", what=f"{name} TMC={th['TMC']}: kinematics {kin} ({case['label']}) end in an internal failure {text}"))
    sample = dict(obs=name, process=case["obs"]["prDIS"], scheme=th["FNS"], PTO=th["PTODIS"], TMC=th["TMC"], point=kin, outcome=outcome, detail=text[:120])
    return dict(violations=viol, compared=1, nontrivial=nontrivial, classes=sorted(classes), sample=sample)


def aggregate(cases, results):
    """A dead worker while running a lattice cell is an internal failure of that cell (segfault in compiled code, abort)."""
    out = []
    for c, r in zip(cases, results):
        if r is not None and r.get("status") == "crashed":
            out.append(dict(sig="crash|worker-died", what=f"{c['kind']}_{c['heavy']} {c['obs']['prDIS']} {c['theory']['FNS']} PTO={c['theory']['PTO']}: worker process died ({r.get('reason')}): {r.get('stderr','')[-300:]}", case=c))
    return out
