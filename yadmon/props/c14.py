"""C14 - results do not depend on request history or cache state: history monitor, bit-for-bit."""
import copy

import numpy as np

from .. import cards, env, run

PROP = "C14"
LEVEL = "exploration"
RULE = (
    "per case a base request set (2-3 observables x 3-4 points with repeated Q2 values) is executed alone; then histories "
    "containing it: permuted observables and kinematics, supersets (extra SF/XS observables, duplicate and extra points), "
    "single-point subsets, repeated get_result on the same runner, a second runner in the same process, an aborted request "
    "(KeyboardInterrupt injected at the n-th convolution, then get_result again on the same runner) and a scribbled first "
    "output (tensors zeroed in place before asking again). Every (observable, point) result is compared bit for bit "
    "(order keys and their order, values, errors) with the reference; one history spells every second point with its mapping keys in the opposite order (Q2 before x);  in addition every base request is recomputed in a second set of "
    "worker processes that see the cases in reverse order and another partition, and the bit patterns are compared (process-wide memos). "
    "Probes count cache hits/misses/drops. "
    "Distinct = (history kind, TMC, scheme, process, PTO); non-trivial = the history contained a cache hit or a cache drop and the compared tensors are non-zero."
    " The second set of processes runs under another PYTHONHASHSEED and serves, before each reference, a twin grid, the same nodes in the other interpolation mode and with another degree, and another NfFF."
)
ASSUMPTIONS = ["the point dictionaries of one history are distinct objects unless the history class says otherwise"]
HKINDS = ["permute", "superset", "subset", "repeat", "second-runner", "abort", "scribble", "keyorder"]


def budget(tier):
    return 270 if tier == "quick" else 1500


def floor(tier):
    return dict(min_conclusive=20 if tier == "quick" else 250, min_nontrivial=20 if tier == "quick" else 80,
                classes=HKINDS + ["tmc", "notmc", "other-process"], probes=["cache_hit", "cache_miss", "drop_cache"], min_compared=200)  # fmt: skip


def cases(tier, rng):
    n = 32 if tier == "quick" else 640  # (640, not 800, since the key-order history: the second-process phase must fit into the budget)
    out = []
    # anchors: the massive N3LO coefficient functions come from tabulated grids loaded lazily per process: FL before F2, F2 before FL
    for k in range(2 if tier == "quick" else 12):
        g = cards.rand_grid(rng)
        names = [["FL_charm", "F2_charm", "F2_total"], ["F2_charm", "FL_charm", "FL_total"]][k % 2]
        pts = [dict(x=float(rng.uniform(0.05, 0.3)), Q2=cards.logu(rng, 30.0, 300.0), cls="bulk") for _ in range(2)]
        hist = [dict(kind=hk, perm_obs=[int(v) for v in rng.permutation(3)], perm_pts=[int(v) for v in rng.permutation(2)], abort_at=int(rng.integers(1, 40)), dup=0, sub=(int(rng.integers(3)), 0))
                for hk in ("permute", "subset", "repeat")]  # fmt: skip
        out.append(dict(id=f"c14-n3lo{k}", names=names, points=pts, extra_names=["F1_charm", "FL_light"], extra_points=[dict(x=0.2, Q2=50.0, y=0.4), dict(x=0.3, Q2=80.0, y=0.6)],
                        histories=hist, grid=g, theory=dict(PTO=3, FNS=cards.pick(rng, ["FFNS", "FONLL-FFNS"]), NfFF=3, TMC=0, RenScaleVar=False, FactScaleVar=False),
                        obs=dict(prDIS="NC", ProjectileDIS="electron"), kinds=["F2", "FL"]))  # fmt: skip
    for i in range(n):
        cfg = cards.rand_config(rng, ptos=(0, 1, 1, 2) if tier == "thorough" else (0, 1, 1, 1, 2), sv=True, ew=False)
        tmc = int(cards.pick(rng, [0, 1, 2, 3]))
        cfg["theory"]["TMC"] = tmc
        cfg["theory"]["MP"] = float(rng.uniform(0.5, 1.5))
        g = cards.rand_grid(rng)
        kinds = [k for k in cfg["kinds"] if not (tmc and k in ("gL", "g4"))]
        hs = ["total", "light", "charm", "bottom"]
        names = []
        while len(names) < 3:
            nm = f"{cards.pick(rng, kinds)}_{cards.pick(rng, hs)}"
            if nm not in names:
                names.append(nm)
        pts = cards.rand_points(rng, g["xgrid"], n=4, q2lo=4.0, q2hi=2e3, xmax=0.7)
        pts[1]["Q2"] = pts[0]["Q2"]  # shared Q2: the cache is not dropped between them
        if i % 3 == 0:
            # two points whose kinematic values are permutations of each other ((x,Q2) = (a,b) and (b,a), both below 1): cache keys
            # built from the bare values must still tell them apart
            a_, b_ = float(rng.uniform(0.35, 0.6)), float(rng.uniform(0.65, 0.95))
            pts[2].update(x=a_, Q2=b_)
            pts[3].update(x=b_, Q2=a_)
        for p in pts:
            p["x"] = float(max(p["x"], min(0.4, g["xgrid"][1] * 2.0)))  # keep the Nachtmann variable inside the grid
        xsk = cards.pick(rng, ["XSHERANC", "XSHERACC", "XSCHORUSCC", "F1", "FW"])
        extra_names = [f"{xsk}_{cards.pick(rng, hs)}", f"{cards.pick(rng, kinds)}_{cards.pick(rng, hs)}"]
        extra_pts = cards.rand_points(rng, g["xgrid"], n=2, q2lo=4.0, q2hi=2e3, xmax=0.7)
        extra_pts[0]["Q2"] = pts[2]["Q2"]
        for p in extra_pts:
            p["x"] = float(max(p["x"], min(0.4, g["xgrid"][1] * 2.0)))
            p["y"] = float(rng.uniform(0.1, 0.9))
        if i % 2 == 0:
            extra_pts[1].update(x=extra_pts[0]["y"], y=extra_pts[0]["x"], Q2=extra_pts[0]["Q2"])  # x and y exchanged at the same Q2
            if extra_pts[1]["x"] < g["xgrid"][1] * 2.0:
                extra_pts[1].update(x=extra_pts[0]["x"], y=extra_pts[0]["y"])
        hist = []
        for hk in HKINDS:
            if hk == "keyorder" and tier == "quick" and i % 3:
                continue  # quick tier: the cases that carry value-permuted points (every third) get the key-order history
            h = dict(kind=hk, perm_obs=[int(k) for k in rng.permutation(len(names))], perm_pts=[int(k) for k in rng.permutation(len(pts))],
                     abort_at=int(rng.integers(1, 40)), dup=int(rng.integers(len(pts))), sub=(int(rng.integers(len(names))), int(rng.integers(len(pts)))))  # fmt: skip
            hist.append(h)
        out.append(dict(id=f"c14-{i}", names=names, points=pts, extra_names=extra_names, extra_points=extra_pts, histories=hist, grid=g, **cfg))
    return out


class Probes:
    def __init__(self):
        from yadism import sf as sfmod
        from yadism.esf import conv

        self.sfmod, self.conv = sfmod, conv
        self.counts = dict(cache_hit=0, cache_miss=0, drop_cache=0, convolution=0)
        self.abort_at = None
        self.orig_get = sfmod.StructureFunction.get_esf
        self.orig_drop = sfmod.StructureFunction.drop_cache
        self.orig_conv = conv.convolution
        pr = self

        def get_esf(self, obs_name, kinematics, *args, use_raw=True, force_local=False):
            # hit or miss is read off the cache itself (whatever its keys look like): a hit returns an object the cache already held
            mine = not force_local and obs_name == self.obs_name
            held = {id(v) for v in self.cache.values()} if mine else ()
            obj = pr.orig_get(self, obs_name, kinematics, *args, use_raw=use_raw, force_local=force_local)
            if mine:
                pr.counts["cache_hit" if id(obj) in held else "cache_miss"] += 1
            return obj

        def drop_cache(self):
            if self.cache:
                pr.counts["drop_cache"] += 1
            return pr.orig_drop(self)

        def convolution(rsl, x, pdf_func):
            pr.counts["convolution"] += 1
            if pr.abort_at is not None and pr.counts["convolution"] >= pr.abort_at:
                pr.abort_at = None
                raise KeyboardInterrupt("injected by yadmon C14")
            return pr.orig_conv(rsl, x, pdf_func)

        sfmod.StructureFunction.get_esf = get_esf
        sfmod.StructureFunction.drop_cache = drop_cache
        conv.convolution = convolution

    def undo(self):
        self.sfmod.StructureFunction.get_esf = self.orig_get
        self.sfmod.StructureFunction.drop_cache = self.orig_drop
        self.conv.convolution = self.orig_conv


def kin(p, with_y, rev=False):
    d = dict(x=p["x"], Q2=p["Q2"])
    if with_y:
        d["y"] = p.get("y", 0.5)
    if rev:  # the same mapping written with its keys in the opposite order (a YAML card may list Q2 before x)
        d = {k: d[k] for k in reversed(list(d))}
    return d


def is_xs(name):
    return name.split("_")[0] in cards.XSS


def run_case(case):
    yad = run.yad()
    th = cards.theory(**case["theory"])
    g = case["grid"]
    names, pts = case["names"], case["points"]

    def mkobs(obsd):
        return cards.observables(obsd, xgrid=g["xgrid"], deg=g["deg"], is_log=g["is_log"], **case["obs"])

    def request(nlist, plist, rev=()):
        return {n: [kin(p, is_xs(n), rev=(j in rev)) for j, p in enumerate(plist)] for n in nlist}

    pr = Probes()
    viol, nontrivial, classes = [], set(), {"tmc" if th["TMC"] else "notmc"}
    compared = 0
    sample = None
    try:
        if case.get("ref_only"):
            # in the second process the twin grid (same size, end points, degree, log mode; other interior nodes) is served FIRST:
            # a process-wide memo that cannot tell the two grids apart now pollutes the reference itself
            # (each pre-run on its own: a rejection of one of them must not cancel the others; the grid-related ones at PTO <= 2 - what they
            # can pollute does not depend on the order, and massive N3LO pre-runs are slow)
            th_lo = dict(th, PTO=min(th["PTO"], 2), PTODIS=min(th["PTODIS"], 2))

            def pre(th_, ob_):
                try:
                    yad.Runner(th_, ob_).get_result()
                except (ValueError, NotImplementedError):
                    pass

            # (with the LAST observable of the request, so that lazily initialised process-wide state is first touched by another
            # observable than in the first process)
            pre(th, cards.observables(request(names[-1:], pts[:2]), xgrid=cards.warp_grid(g["xgrid"]), deg=g["deg"], is_log=g["is_log"], **case["obs"]))
            # ... the very same nodes in the other interpolation mode and with another polynomial degree (process-wide state keyed by the
            # nodes alone)
            pre(th_lo, cards.observables(request(names[:1], pts[:1]), xgrid=g["xgrid"], deg=g["deg"], is_log=not g["is_log"], **case["obs"]))
            if len(g["xgrid"]) > g["deg"] + 2:
                pre(th_lo, cards.observables(request(names[:1], pts[:1]), xgrid=g["xgrid"], deg=g["deg"] + 1 if g["deg"] < 4 else g["deg"] - 1, is_log=g["is_log"], **case["obs"]))
            if th["FNS"] != "ZM-VFNS":
                # ... and the same request under another NfFF first (process-wide state keyed without the flavour number)
                th_other = dict(th, NfFF=th["NfFF"] + 1 if th["NfFF"] < 5 else th["NfFF"] - 1)
                pre(th_other, mkobs(request(names[-1:] + [names[0].split("_")[0] + "_total"], pts[:1])))
        ref_out = yad.Runner(th, mkobs(request(names, pts))).get_result()
        ref = {(n, i): ref_out[n][i] for n in names for i in range(len(pts))}
        import hashlib

        hsh = hashlib.sha256()
        for n in names:
            for i in range(len(pts)):
                for o, (v, e) in ref[(n, i)].orders.items():
                    hsh.update(repr(o).encode())
                    hsh.update(np.ascontiguousarray(v, dtype=float).tobytes())
                    hsh.update(np.ascontiguousarray(e, dtype=float).tobytes())
        ref_digest = hsh.hexdigest()
        if case.get("ref_only"):
            return dict(status="held", ref_digest=ref_digest, compared=0)
        nonzero = any(run.absmax(v[0]) > 0 for r in ref.values() for v in r.orders.values())

        def judge(hk, out, nlist, plist, before):
            nonlocal compared, sample
            hits = pr.counts["cache_hit"] - before["cache_hit"]
            drops = pr.counts["drop_cache"] - before["drop_cache"]
            for n in nlist:
                if n not in names:
                    continue
                for j, p in enumerate(plist):
                    if p.get("_base") is None:
                        continue
                    r0 = ref[(n, p["_base"])]
                    r1 = out[n][j]
                    ok = r1.x == p["x"] and r1.Q2 == p["Q2"]
                    eq, why = run.same_bits(r0, r1)
                    compared += 1
                    if not (ok and eq):
                        viol.append(dict(sig=f"history|{hk}|tmc{1 if th['TMC'] else 0}", what=f"{n} at x={p['x']:.6g} Q2={p['Q2']:.6g} (TMC={th['TMC']}, {th['FNS']}, PTO={th['PTODIS']}) differs in history '{hk}' from the stand-alone run: {why or 'kinematics not echoed'}",
                                         detail=dict(history=hk, obs=n, point={k: v for k, v in p.items() if k != '_base'})))  # fmt: skip
            classes.add(hk)
            if nonzero and (hits > 0 or drops > 0):
                nontrivial.add(f"{hk}|tmc{th['TMC']}|{th['FNS']}|{case['obs']['prDIS']}|pto{th['PTODIS']}")
            if sample is None:
                sample = dict(history=hk, observables=nlist, n_points=len(plist), cache_hits=hits, cache_drops=drops)

        base_pts = [dict(p, _base=i) for i, p in enumerate(pts)]
        for h in case["histories"]:
            hk = h["kind"]
            before = dict(pr.counts)
            if hk == "permute":
                nl = [names[k] for k in h["perm_obs"]]
                pl = [base_pts[k] for k in h["perm_pts"]]
                judge(hk, yad.Runner(th, mkobs(request(nl, pl))).get_result(), nl, pl, before)
            elif hk == "superset":
                nl = [case["extra_names"][0]] + [names[k] for k in h["perm_obs"]] + [case["extra_names"][1]]
                nl = list(dict.fromkeys(nl))
                pl = [dict(case["extra_points"][0]), *[base_pts[k] for k in h["perm_pts"]], dict(base_pts[h["dup"]]), dict(case["extra_points"][1])]
                judge(hk, yad.Runner(th, mkobs(request(nl, pl))).get_result(), nl, pl, before)
            elif hk == "subset":
                nl, pl = [names[h["sub"][0]]], [base_pts[h["sub"][1]]]
                judge(hk, yad.Runner(th, mkobs(request(nl, pl))).get_result(), nl, pl, before)
            elif hk == "repeat":
                r = yad.Runner(th, mkobs(request(names, base_pts)))
                r.get_result()
                r.get_result()
                judge(hk, r.get_result(), names, base_pts, before)
            elif hk == "second-runner":
                yad.Runner(th, mkobs(request(case["extra_names"], [dict(p) for p in case["extra_points"]]))).get_result()
                # and a runner on a *different* grid with the same number of nodes, end points, degree and log mode (process-wide memos keyed
                # by grid size only would survive it)
                g2 = cards.warp_grid(g["xgrid"])
                lowx = max(0.3, g2[1] * 2.0)
                other = cards.observables({names[0]: [dict(x=lowx, Q2=pts[0]["Q2"])]}, xgrid=g2, deg=g["deg"], is_log=g["is_log"], **case["obs"])
                try:
                    yad.Runner(th, other).get_result()
                except ValueError:
                    pass
                judge(hk, yad.Runner(th, mkobs(request(names, base_pts))).get_result(), names, base_pts, before)
            elif hk == "abort":
                r = yad.Runner(th, mkobs(request(names, base_pts)))
                pr.abort_at = pr.counts["convolution"] + h["abort_at"]
                try:
                    r.get_result()
                    aborted = False
                except KeyboardInterrupt:
                    aborted = True
                pr.abort_at = None
                out = r.get_result()
                judge(hk if aborted else "repeat", out, names, base_pts, before)
            elif hk == "keyorder":
                # every second point (and, in a second run, the others) spelt with its keys in the opposite order, duplicates of the
                # first two points in the other spelling appended: a mapping is the same point however its keys are listed
                for odd in ((1, 0) if env.tier() == "thorough" else (h["dup"] % 2,)):  # quick tier: one of the two spellings per case
                    pl = [*base_pts, dict(base_pts[0]), dict(base_pts[1])]
                    rev = {j for j in range(len(pl)) if (j % 2 == odd) != (j >= len(base_pts))}
                    judge(hk, yad.Runner(th, mkobs(request(names, pl, rev=rev))).get_result(), names, pl, before)
            elif hk == "scribble":
                r = yad.Runner(th, mkobs(request(names, base_pts)))
                first = r.get_result()
                for n in names:
                    for res in first[n]:
                        for o in list(res.orders):
                            res.orders[o][0][...] = 0.0
                            res.orders[o][1][...] = 7.0
                        res.x, res.Q2 = -1.0, -1.0
                    first[n].reverse()
                first["xgrid"]["grid"] = [0.5, 1.0] if isinstance(first["xgrid"]["grid"], list) else first["xgrid"]["grid"] * 0
                judge(hk, r.get_result(), names, base_pts, before)
    finally:
        pr.undo()
    return dict(violations=viol, compared=compared, nontrivial=sorted(nontrivial), classes=sorted(classes), probes=pr.counts, sample=sample, ref_digest=ref_digest)


def execute(cases, deadline, progress):
    """Besides the in-process histories: every base request is also computed in a second set of processes that see the cases in
    another order and partition.  A process-wide memo that depends on what the process did before (the first grid wins, ...) makes the
    two bit patterns differ, although every history *inside* one process is consistent."""
    from .. import env
    from ..pool import Pool

    results = Pool(PROP, "jit", case_timeout=900).map(cases, deadline, progress)
    order = list(range(len(cases)))[::-1]
    sub = [dict(cases[i], ref_only=True) for i in order]
    # few processes: each one sees many different requests; and another string-hash seed than the first set of processes, so that a
    # result that follows the iteration order of a set or of hashed keys differs as well
    other = Pool(PROP, "jit", nworkers=2, case_timeout=900, extra_env={"PYTHONHASHSEED": "4242"}).map(sub, deadline)
    for i, r2 in zip(order, other):
        r1 = results[i]
        if not r1 or not r2 or "ref_digest" not in r1 or "ref_digest" not in r2:
            if r1:  # the second-process reference is missing (time-out, budget): counted, so that the evidence shows what was not compared
                r1.setdefault("probes", {})["other_process_missing"] = 1
            continue
        r1.setdefault("classes", []).append("other-process")
        r1["compared"] = r1.get("compared", 0) + 1
        if r1["ref_digest"] != r2["ref_digest"]:
            c = cases[i]
            r1.setdefault("violations", []).append(dict(sig="history|other-process", what=f"the base request of {c['id']} ({c['names']}, {c['theory']['FNS']}, PTO={c['theory']['PTO']}, TMC={c['theory']['TMC']}) gives different bits in a process that served other requests before (different case order / partition): a process-wide memo leaks between runs"))
    return results
