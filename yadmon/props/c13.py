"""C13 - symmetry and decoupling relations between processes and beams: metamorphic pairs of runs."""
import numpy as np

from .. import cards, nfref, run

PROP = "C13"
LEVEL = "exploration"
RULE = (
    "metamorphic pairs of runs over seeded cells (kinds, heavynesses, schemes, PTO 0..3, SV keys, EW box, arbitrary CKM): "
    "(decouple) NC with MZ=MW=1e12 vs EM, |diff| <= 1e-10*scale(F2); (pol) positron with P vs electron with -P, bit-identical; "
    "(cc) antineutrino vs neutrino and e- vs e+ CC: O[p] = +-O'[pbar], minus for F3 (rtol 1e-10), and e+ == neutrino, "
    "e- == antineutrino bit-identical; (flav) NC/EM, every scheme: rows of light (massless) quarks with identical charges coincide "
    "(d=s=b, u=c among the nf light flavours) (rtol 1e-10). Distinct = (relation, kind, heavyness, scheme, PTO); non-trivial = the compared tensors are non-zero."
    " The flavour symmetry is also demanded of tagged observables (<kind>_charm/_bottom) among the other quarks of the same charge, with cases that make the tagged quark massless below heavier active quarks at orders >= 2."
)
ASSUMPTIONS = ["Z decoupling is realised by MZ = MW = 1e12 GeV (propagator ratio ~ Q2/MZ^2 <= 1e-19)"]
RTOL = 1e-10  # re-association noise is relative to the sum of |kernel terms|, which can exceed the result by 1e2 (thorough: margin 0.7 at 1e-12)


def budget(tier):
    return 240 if tier == "quick" else 1500


def floor(tier):
    return dict(min_conclusive=40 if tier == "quick" else 600, min_nontrivial=25 if tier == "quick" else 200,
                classes=["decouple", "pol", "cc", "flav"], min_compared=1000)  # fmt: skip


def cases(tier, rng):
    n = 88 if tier == "quick" else 10000
    out = []
    rels = ["decouple", "pol", "cc", "flav"]
    ptos = (0, 1, 1, 2) if tier == "quick" else (0, 1, 1, 2, 2, 3)
    for i in range(n):
        rel = rels[i % 4]
        if rel == "cc":
            cfg = cards.rand_config(rng, process="CC", ptos=ptos, sv=True)
        elif rel == "flav":
            # light quarks are massless in every scheme: the symmetry holds among the nf light flavours of massive schemes too
            cfg = cards.rand_config(rng, process=cards.pick(rng, ["NC", "EM"]), ptos=ptos, sv=True)
            if cfg["theory"]["FNS"] in ("FFNS", "FFN0") and rng.random() < 0.3:
                cfg["theory"]["NfFF"] = 6  # all quarks massless
            if i % 8 == 3:
                # one runner serving points with different nf (runner-wide scale-variation state): nf=4 first, then nf=5
                cfg["theory"].update(FNS="ZM-VFNS", FactScaleVar=True, PTO=max(1, cfg["theory"]["PTO"]), PTODIS=max(1, cfg["theory"]["PTO"]))
                cfg["span"] = True
        else:
            cfg = cards.rand_config(rng, process="NC", ptos=ptos, sv=True)
            cfg["obs"]["ProjectileDIS"] = cards.pick(rng, ["electron", "positron"])
            cfg["obs"]["PolarizationDIS"] = float(rng.uniform(-1, 1))
        g = cards.rand_grid(rng)
        kind = cards.pick(rng, cfg["kinds"])
        heavy = cards.pick(rng, ["total", "total", "light", "charm", "bottom", "charmlight"])
        if rel == "flav":
            # (tagged observables too: the other quarks of the same charge - lighter or heavier than the tagged one - stay exchangeable)
            heavy = cards.pick(rng, ["total", "light", "total", "light", "charm", "bottom"])
            if heavy in ("charm", "bottom") and i % 2:
                # make the tagged quark a massless one with heavier active quarks above it, at an order where the singlet channels exist
                cfg["theory"].update(FNS="ZM-VFNS", PTO=max(2, min(cfg["theory"]["PTO"], 3)), PTODIS=max(2, min(cfg["theory"]["PTO"], 3)))
                cfg["highq2"] = True
                if kind_ok := [k_ for k_ in cfg["kinds"] if k_ in ("F2", "FL", "F3")]:
                    cfg["kinds"] = kind_ok
        if rng.random() < 0.3:
            cfg["obs"]["TargetDIS"] = cards.pick(rng, ["neutron", "iron", "isoscalar"])
        pts = cards.rand_points(rng, g["xgrid"], n=2, q2lo=3.0, q2hi=1e4)
        if cfg.pop("highq2", False):
            for p_ in pts:
                p_["Q2"] = cards.logu(rng, 2.0 * cfg["theory"]["mb"] ** 2 * cfg["theory"].get("kbThr", 1.0) ** 2, 2e4)
            kind = cards.pick(rng, cfg["kinds"])
        if cfg.pop("span", False):
            pts[0]["Q2"], pts[1]["Q2"] = float(rng.uniform(4.0, 0.8 * cfg["theory"]["mb"] ** 2)), cards.logu(rng, 1.5 * cfg["theory"]["mb"] ** 2, 1e4)
        out.append(dict(id=f"c13-{i}", rel=rel, kind=kind, heavy=heavy, grid=g, points=pts, **cfg))
    return out


def conj(v):
    """charge-conjugate the parton index: rows p <-> pbar."""
    idx = [run.pid_index(-p) if p not in (21, 22) else run.pid_index(p) for p in cards.PIDS]
    return np.asarray(v)[idx]


def run_case(case):
    th = cards.theory(**case["theory"])
    g = case["grid"]
    rel, kind = case["rel"], case["kind"]
    name = f"{kind}_{case['heavy']}"
    pts = [dict(x=p["x"], Q2=p["Q2"]) for p in case["points"]]
    viol, nontrivial = [], set()
    compared, margin, sample = 0, 0.0, None
    cell = f"{rel}|{kind}|{case['heavy']}|{th['FNS']}|pto{th['PTODIS']}"

    def mkobs(names=None, **kw):
        o = dict(case["obs"])
        o.update(kw)
        return cards.observables({n: pts for n in (names or [name])}, xgrid=g["xgrid"], deg=g["deg"], is_log=g["is_log"], **o)

    def nz(r):
        return any(run.absmax(v[0]) > 0 for v in r.orders.values())

    if rel == "decouple":
        t2 = dict(th)
        t2.update(MZ=1e12, MW=1e12)
        a = run.run(t2, mkobs([name, f"F2_{case['heavy']}"]))
        b = run.run(th, mkobs([name, f"F2_{case['heavy']}"], prDIS="EM"))
        for i, p in enumerate(pts):
            ra, rb, f2 = a[name][i], b[name][i], b[f"F2_{case['heavy']}"][i]
            for o in rb.orders:
                sc = max(run.absmax(f2.orders[o][0]), run.absmax(rb.orders[o][0]))
                va = ra.orders[o][0] if o in ra.orders else np.zeros_like(rb.orders[o][0])
                m, d = run.cmp(va, rb.orders[o][0], sc, 1e-10, 1e-300)
                compared += va.size
                if m > 1:
                    viol.append(dict(sig=f"z-decoupling|{kind}", what=f"{name}: NC with MZ=MW=1e12 differs from EM at order {run.key(o)} x={p['x']:.6g} Q2={p['Q2']:.6g}: max dev {d:.3g} (F2 scale {sc:.3g})"))
                else:
                    margin = max(margin, m)
            if nz(rb) or nz(f2):
                nontrivial.add(cell)
            if sample is None:
                sample = dict(relation="NC(MZ=1e12) == EM", obs=name, x=p["x"], Q2=p["Q2"], em_max=max(run.absmax(v[0]) for v in rb.orders.values()))
    elif rel == "pol":
        P = case["obs"]["PolarizationDIS"]
        a = run.run(th, mkobs(ProjectileDIS="positron", PolarizationDIS=P))
        b = run.run(th, mkobs(ProjectileDIS="electron", PolarizationDIS=-P))
        for i, p in enumerate(pts):
            eq, why = run.same_bits(a[name][i], b[name][i])
            compared += sum(np.asarray(v[0]).size for v in a[name][i].orders.values())
            if nz(a[name][i]):
                nontrivial.add(cell)
            if not eq:
                viol.append(dict(sig=f"pol-flip|{kind}", what=f"{name}: e+ with P={P:.4g} differs from e- with -P at x={p['x']:.6g} Q2={p['Q2']:.6g}: {why}"))
            elif sample is None:
                sample = dict(relation="e+(P) == e-(-P) bitwise", obs=name, P=P, x=p["x"], Q2=p["Q2"])
    elif rel == "cc":
        outs = {pr: run.run(th, mkobs(ProjectileDIS=pr)) for pr in cards.PROJECTILES}
        sgn = -1.0 if kind == "F3" else 1.0
        for i, p in enumerate(pts):
            for x1, x2 in (("positron", "neutrino"), ("electron", "antineutrino")):
                eq, why = run.same_bits(outs[x1][name][i], outs[x2][name][i])
                compared += 1
                if not eq:
                    viol.append(dict(sig=f"cc-lepton-equiv|{kind}", what=f"{name} CC: {x1} differs from {x2}: {why}"))
            ra, rb = outs["antineutrino"][name][i], outs["neutrino"][name][i]
            if list(ra.orders) != list(rb.orders):
                viol.append(dict(sig="cc-order-keys", what="order keys differ between nu and nubar"))
                continue
            for o in ra.orders:
                exp = sgn * conj(rb.orders[o][0])
                m, d = run.cmp(ra.orders[o][0], exp, run.absmax(exp), RTOL)
                compared += exp.size
                if m > 1:
                    bad = np.unravel_index(np.argmax(np.abs(ra.orders[o][0] - exp)), exp.shape)
                    viol.append(dict(sig=f"cc-conjugation|{kind}|{'g' if cards.PIDS[bad[0]]==21 else 'q'}", what=f"{name} CC {th['FNS']} order {run.key(o)} x={p['x']:.6g} Q2={p['Q2']:.6g}: nubar row pid={cards.PIDS[bad[0]]} = {ra.orders[o][0][bad]:.12g}, expected {'-' if sgn<0 else '+'}nu row of conjugate parton = {exp[bad]:.12g}"))
                else:
                    margin = max(margin, m)
            if nz(rb):
                nontrivial.add(cell)
            if sample is None:
                sample = dict(relation="O_nubar[p] = +-O_nu[pbar]", obs=name, x=p["x"], Q2=p["Q2"], sign=sgn)
    elif rel == "flav":
        out = run.run(th, mkobs())
        for i, p in enumerate(pts):
            nf = nfref.nf_light(th, p["Q2"])
            r = out[name][i]
            tagged = {"charm": 4, "bottom": 5, "top": 6}.get(case["heavy"])
            groups = [[q for q in (1, 3, 5) if q <= nf and q != tagged], [q for q in (2, 4, 6) if q <= nf and q != tagged]]
            for o in r.orders:
                v = np.asarray(r.orders[o][0])
                for grp in groups:
                    for q in grp[1:]:
                        for sg in (1, -1):
                            # exchanging the PDFs of two quarks with identical charges leaves the result invariant
                            # <=> their operator rows coincide (target isospin only mixes u and d: compare s with b, and d,u excluded if nuclear)
                            q0 = grp[0]
                            if "TargetDIS" in case["obs"] and q0 in (1, 2):
                                if len(grp) < 3:
                                    continue
                                q0 = grp[1]
                                if q == q0:
                                    continue
                            a_, b_ = v[run.pid_index(sg * q0)], v[run.pid_index(sg * q)]
                            m, d = run.cmp(a_, b_, max(run.absmax(a_), run.absmax(b_)), RTOL)
                            compared += a_.size
                            if run.absmax(a_) > 0:
                                nontrivial.add(cell)
                            if m > 1:
                                viol.append(dict(sig=f"flavour-symmetry|{kind}|{'down' if q % 2 else 'up'}", what=f"{name} {case['obs']['prDIS']} {th['FNS']} nf={nf} order {run.key(o)} x={p['x']:.6g} Q2={p['Q2']:.6g}: rows of quarks {sg*q0} and {sg*q} differ by {d:.3g} (scale {run.absmax(a_):.3g})"))
                            else:
                                margin = max(margin, m)
            if sample is None:
                sample = dict(relation="rows d=s=b, u=c", obs=name, nf=nf, x=p["x"], Q2=p["Q2"])
    return dict(violations=viol, compared=compared, nontrivial=sorted(nontrivial), classes=[rel], margin=margin, sample=sample)
