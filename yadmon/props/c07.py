"""C07 - additive decompositions: relations between separately requested observables / runs, entry by entry."""
import numpy as np

from .. import cards, nfref, run

PROP = "C07"
LEVEL = "exploration"
RULE = (
    "four relation families over seeded configuration cells: (ffns) total = light + sum of massive heavy flavours in "
    "FFNS/FFN0; (zm) total == light bit for bit in ZM-VFNS; (fonll) FONLLParts full = massless + massive (three runs); "
    "(pos) sum over NCPositivityCharge in d,u,s,c,b,t = unrestricted NC/EM run, None == 'all' bit for bit. Every order "
    "key (scale-variation keys included) is compared entrywise with rtol 1e-10 on sum|parts|. Distinct = (family, kind, "
    "process, scheme, NfFF, PTO, target class); non-trivial = the sum had at least two non-zero parts (or a non-zero tensor for zm)."
)
ASSUMPTIONS = ["for a flavour the scheme treats as light, <flavour> is part of light and is not added again (property: 'wherever the scheme defines a partition')"]
RTOL = 1e-10  # re-association noise is relative to the sum of |kernel terms|, which can exceed the result by 1e2 (thorough: margin 0.7 at 1e-12)
HEAVY = {4: "charm", 5: "bottom", 6: "top"}


def budget(tier):
    return 240 if tier == "quick" else 1500


def floor(tier):
    return dict(min_conclusive=40 if tier == "quick" else 600, min_nontrivial=25 if tier == "quick" else 150,
                classes=["ffns", "zm", "fonll", "pos"], min_compared=1000)  # fmt: skip


def cases(tier, rng):
    n = 72 if tier == "quick" else 8000
    out = []
    fams = ["ffns", "zm", "fonll", "pos"]
    for i in range(n):
        fam = fams[i % 4]
        ptos = (0, 1, 1, 2) if tier == "quick" else (0, 1, 1, 2, 2, 3)
        if fam == "ffns":
            cfg = cards.rand_config(rng, schemes=["FFNS", "FFN0"], ptos=ptos, sv=True)
        elif fam == "zm":
            cfg = cards.rand_config(rng, schemes=["ZM-VFNS"], ptos=ptos, sv=True)
        elif fam == "fonll":
            cfg = cards.rand_config(rng, schemes=["FONLL-FFNS", "FONLL-FFN0", "FONLL-FFNS", "FFNS", "FFN0"], ptos=ptos, sv=True)
        else:
            # the flavour-class fl11 couplings only exist at N3LO: keep PTO 3 in the quick tier for this family
            cfg = cards.rand_config(rng, process=cards.pick(rng, ["NC", "EM"]), ptos=ptos if (i // 4) % 3 else (3,), sv=True,
                                    schemes=None if (i // 4) % 3 else ["ZM-VFNS", "FFN0", "FONLL-FFN0"])  # fmt: skip
        g = cards.rand_grid(rng)
        if fam in ("ffns", "fonll", "zm") and i % 3 == 1:
            # the partitions must survive target-mass corrections (which integrate the structure functions over [xi,1])
            cfg["theory"].update(TMC=int(cards.pick(rng, [1, 3, 2])), MP=float(rng.uniform(0.5, 1.5)), PTO=min(cfg["theory"]["PTO"], 2))
            cfg["theory"]["PTODIS"] = cfg["theory"]["PTO"]
            cfg["kinds"] = [k_ for k_ in cfg["kinds"] if k_ in ("F2", "FL", "F3", "g1")]
        kind = cards.pick(rng, cfg["kinds"])
        if fam == "pos" and cfg["theory"]["PTO"] == 3:
            kind = cards.pick(rng, ["F2", "FL"])  # the only kinds with fl11 diagrams
        elif rng.random() < 0.15:
            kind = cards.pick(rng, ["XSHERANC", "XSHERACC", "XSCHORUSCC", "F1", "FW"])  # cross sections are linear in the SFs
        if rng.random() < 0.4:
            cfg["obs"]["TargetDIS"] = cards.pick(rng, ["neutron", "isoscalar", "iron", {"Z": float(rng.uniform(0, 3)), "A": 3.0}])
        pts = cards.rand_points(rng, g["xgrid"], n=2, q2lo=3.0, q2hi=3e3)
        if cfg["theory"].get("TMC"):
            for p_ in pts:
                p_["x"] = float(max(p_["x"], min(0.45, g["xgrid"][1] * 2.5)))
                p_["Q2"] = cards.logu(rng, 3.0, 60.0)
        heavy = cards.pick(rng, ["total", "light", "charm", "bottom"]) if fam in ("fonll", "pos") else None
        if fam == "pos" and cfg["theory"]["PTO"] == 3:
            heavy = cards.pick(rng, ["total", "light"])
        out.append(dict(id=f"c07-{i}", fam=fam, kind=kind, heavy=heavy, grid=g, points=pts, **cfg))
    return out


def run_case(case):
    th = cards.theory(**case["theory"])
    g = case["grid"]
    kind, fam = case["kind"], case["fam"]
    pts = [dict(x=p["x"], Q2=p["Q2"], **({"y": 0.41} if kind in cards.XSS else {})) for p in case["points"]]
    viol, nontrivial = [], set()
    compared = 0
    margin = 0.0
    sample = None
    tcls = ("proton" if "TargetDIS" not in case["obs"] else "nuclear") + ("+tmc" if th.get("TMC") else "")
    cell = f"{fam}|{kind}|{case['obs']['prDIS']}|{th['FNS']}|NfFF{th['NfFF']}|pto{th['PTODIS']}|{tcls}"

    def mkobs(names, **kw):
        o = dict(case["obs"])
        o.update(kw)
        return cards.observables({n: pts for n in names}, xgrid=g["xgrid"], deg=g["deg"], is_log=g["is_log"], **o)

    def judge(total, combo, label, p):
        nonlocal compared, margin, sample
        m, n, nz, worst = run.cmp_results(total, combo, RTOL)
        compared += n
        parts_nonzero = sum(1 for _, r in combo if any(run.absmax(v[0]) > 0 for v in r.orders.values()))
        if parts_nonzero >= 2:
            nontrivial.add(cell)
        if m > 1.0:
            viol.append(dict(sig=f"additivity|{fam}|{kind}|{case['obs']['prDIS']}", what=f"{label} at x={p['x']:.6g} Q2={p['Q2']:.6g} ({th['FNS']} NfFF={th['NfFF']} PTO={th['PTODIS']}): {worst}",
                             detail=dict(point=p, margin=m)))  # fmt: skip
        else:
            margin = max(margin, m)
            if sample is None and parts_nonzero >= 2:
                sample = dict(relation=label, x=p["x"], Q2=p["Q2"], parts_nonzero=parts_nonzero, margin=m, orders=len(total.orders))

    if fam == "ffns":
        massive = nfref.massive_quarks(th)
        names = [f"{kind}_total", f"{kind}_light"] + [f"{kind}_{HEAVY[h]}" for h in massive]
        out = run.run(th, mkobs(names))
        for i, p in enumerate(pts):
            judge(out[names[0]][i], [(1.0, out[n][i]) for n in names[1:]], f"{kind}_total = light + " + "+".join(HEAVY[h] for h in massive), p)
    elif fam == "zm":
        out = run.run(th, mkobs([f"{kind}_total", f"{kind}_light"]))
        for i, p in enumerate(pts):
            a, b = out[f"{kind}_total"][i], out[f"{kind}_light"][i]
            eq, why = run.same_bits(a, b)
            compared += sum(np.asarray(v[0]).size for v in a.orders.values())
            if any(run.absmax(v[0]) > 0 for v in a.orders.values()):
                nontrivial.add(cell)
            if not eq:
                viol.append(dict(sig=f"zm-total-light|{kind}|{case['obs']['prDIS']}", what=f"ZM-VFNS {kind}_total != {kind}_light at x={p['x']:.6g} Q2={p['Q2']:.6g}: {why}"))
            elif sample is None:
                sample = dict(relation="ZM total == light (bitwise)", x=p["x"], Q2=p["Q2"], orders=len(a.orders))
    elif fam == "fonll":
        name = f"{kind}_{case['heavy']}"
        outs = {}
        for part in ("full", "massless", "massive"):
            t = dict(th)
            t["FONLLParts"] = part
            outs[part] = run.run(t, mkobs([name]))
        for i, p in enumerate(pts):
            judge(outs["full"][name][i], [(1.0, outs["massless"][name][i]), (1.0, outs["massive"][name][i])], f"{name} FONLLParts full = massless + massive", p)
    elif fam == "pos":
        name = f"{kind}_{case['heavy']}"
        outs = {}
        for ch in [None, "all", "d", "u", "s", "c", "b", "t"]:
            outs[ch] = run.run(th, mkobs([name], NCPositivityCharge=ch))
        for i, p in enumerate(pts):
            eq, why = run.same_bits(outs[None][name][i], outs["all"][name][i])
            compared += 1
            if not eq:
                viol.append(dict(sig=f"poscharge-none-all|{kind}", what=f"{name}: NCPositivityCharge None != 'all': {why}"))
            judge(outs[None][name][i], [(1.0, outs[ch][name][i]) for ch in "duscbt"], f"{name} = sum over NCPositivityCharge d,u,s,c,b,t", p)
    return dict(violations=viol, compared=compared, nontrivial=sorted(nontrivial), classes=[fam], margin=margin, sample=sample)
