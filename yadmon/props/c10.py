"""C10 - target-mass-corrected results equal the published formulas evaluated on observed uncorrected operators."""
import numpy as np
import scipy.integrate as si

from .. import cards, run

PROP = "C10"
LEVEL = "exploration"
RULE = (
    "(formula) for each seeded cell (kind F2/FL/F3/g1, TMC mode 1/2/3, process, heavyness, PTO 0..2 with SV keys, x, Q2, M) the TMC run is "
    "compared, for every order key, with the Schienbein et al. / Bluemlein-Tkabladze-Accardi-Melnitchouk formula assembled from the "
    "operators of a TMC=0 run of the same card at x=xi and at the grid nodes (documented discretisation F(u)=sum_j F(x_j)p_j(u)); the "
    "kernel weights int_xi^1 du k(u)p_j(u) (k = 1/u^2, (u-xi)/u^2, ln(u/xi)/u^2) come from own quadrature; rtol 1e-7; in a third of the cases the same request is first run on two other grids in the same process. (continuity) a scan "
    "M in {1,.3,.1,.03,.01,0}: the correction must shrink at least linearly in M and vanish at M=0. (reject) a request whose "
    "Nachtmann variable falls below the grid must raise an explicit error. Distinct = (monitor, kind, mode, process, heavyness, PTO); "
    "non-trivial = the uncorrected operator is non-zero and M>0."
)
ASSUMPTIONS = ["yadism's normalisation: F3 means xF3 and g1 means 2xg1 (docs/theory/intro.rst); approximate mode = published closed forms for F2, F3 and integrand-at-lower-end for FL, g1 (docs/theory/misc.rst)",
               "eko basis functions trusted for the kernel weights"]  # fmt: skip
RTOL = 1e-7
MODES = {1: "APFEL", 2: "approx", 3: "exact"}


def budget(tier):
    return 280 if tier == "quick" else 1700


def floor(tier):
    return dict(min_conclusive=40 if tier == "quick" else 700, min_nontrivial=30 if tier == "quick" else 150,
                classes=["formula", "continuity", "reject", "regrid", "twice", "F2", "FL", "F3", "g1", "APFEL", "approx", "exact"], min_compared=2000)  # fmt: skip


def cases(tier, rng):
    n = 84 if tier == "quick" else 5000
    out = []
    for i in range(n):
        mon = "formula" if i % 6 < 4 else ("continuity" if i % 6 == 4 else "reject")
        kind = ["F2", "FL", "F3", "g1"][i % 4] if mon == "formula" else cards.pick(rng, ["F2", "FL", "F3", "g1"])
        if mon == "formula" and rng.random() < 0.35:
            kind = cards.pick(rng, ["F3", "g1"])
        cfg = cards.rand_config(rng, process=cards.pick(rng, ["NC", "EM"]) if kind == "g1" else None, ptos=(0, 1, 1) if tier == "quick" else (0, 1, 1, 2), sv=True, ew=False, kinds=[kind])
        mode = int(rng.integers(1, 4))
        cfg["theory"]["TMC"] = mode
        cfg["theory"]["MP"] = float(rng.uniform(0.3, 2.5))
        g = cards.rand_grid(rng)
        heavy = cards.pick(rng, ["total", "total", "light", "charm"])
        pts = cards.rand_points(rng, g["xgrid"], n=2, q2lo=2.0, q2hi=300.0, xmax=0.85)
        for p in pts:
            p["x"] = float(max(p["x"], min(0.45, g["xgrid"][1] * 2.5)))
        out.append(dict(id=f"c10-{i}", mon=mon, kind=kind, heavy=heavy, grid=g, points=pts, regrid=bool(mon == "formula" and i % 3 == 0), twice=bool(mon == "formula" and i % 3 == 1), **cfg))
    return out


def tmc_vars(x, Q2, M):
    mu = M * M / Q2
    r = np.sqrt(1.0 + 4.0 * x * x * mu)
    xi = 2.0 * x / (1.0 + r)
    return mu, r, xi


def weights(interp, nodes, xi, kern):
    """w_j = int_xi^1 du kern(u) p_j(u), own quadrature with break points at the nodes."""
    w = np.zeros(len(nodes))
    brk = [xi] + [u for u in nodes if xi < u < 1.0] + [1.0]
    for j, bf in enumerate(interp):
        if bf.is_below_x(xi):
            continue
        tot = 0.0
        for a, b in zip(brk[:-1], brk[1:]):
            tot += si.quad(lambda u: kern(u) * bf.evaluate_x(u), a, b, epsabs=1e-15, epsrel=1e-12, limit=100)[0]
        w[j] = tot
    return w


class T:
    """Minimal linear space of {order: tensor}."""

    def __init__(self, d=None):
        self.d = dict(d or {})

    @classmethod
    def of(cls, res):
        return cls({o: np.asarray(v[0], dtype=float) for o, v in res.orders.items()})

    def __add__(self, o):
        keys = list(self.d) + [k for k in o.d if k not in self.d]
        return T({k: self.d.get(k, 0) + o.d.get(k, 0) for k in keys})

    def __rmul__(self, c):
        return T({k: c * v for k, v in self.d.items()})

    def absT(self):
        return T({k: np.abs(v) for k, v in self.d.items()})


def expected(kind, mode, x, Q2, M, raw_at, interp, nodes):
    """raw_at(kind, u) -> T of the uncorrected structure function `kind` at x=u (same heavyness).  Returns (T expected, T abs-scale)."""
    mu, r, xi = tmc_vars(x, Q2, M)

    def integral(k_, kern):
        w = weights(interp, nodes, xi, kern)
        tot, sc = T(), T()
        for j, wj in enumerate(w):
            if wj != 0.0:
                t = raw_at(k_, nodes[j])
                tot = tot + float(wj) * t
                sc = sc + abs(float(wj)) * t.absT()
        return tot, sc

    terms = []  # (coef, T, Tabs)
    if kind in ("F2", "FL"):
        n_r = 3 if kind == "F2" else 1
        shifted = x * x / (xi * xi * r**n_r)
        Fxi = raw_at(kind, xi)
        if mode == 2:
            F2xi = raw_at("F2", xi)
            if kind == "F2":
                terms.append((shifted * (1.0 + 6.0 * mu * x * xi / r * (1.0 - xi) ** 2), F2xi, F2xi.absT()))
            else:
                terms.append((shifted, Fxi, Fxi.absT()))
                c = shifted * (4.0 * mu * x * xi / r * (1.0 - xi) + 8.0 * (mu * x * xi / r) ** 2 * (-np.log(xi) - 1.0 + xi))
                terms.append((c, F2xi, F2xi.absT()))
        else:
            terms.append((shifted, Fxi, Fxi.absT()))
            h2, h2s = integral("F2", lambda u: 1.0 / (u * u))
            terms.append(((6.0 if kind == "F2" else 4.0) * mu * x**3 / r ** (4 if kind == "F2" else 2), h2, h2s))
            if mode == 3:
                g2, g2s = integral("F2", lambda u: (u - xi) / (u * u))
                terms.append(((12.0 if kind == "F2" else 8.0) * mu * mu * x**4 / r ** (5 if kind == "F2" else 3), g2, g2s))
    elif kind == "F3":
        shifted = x * x / (xi * xi * r * r)  # on xi*F3(xi)
        Fxi = raw_at("F3", xi)
        if mode == 2:
            terms.append((shifted * (1.0 - mu * x * xi / r * (1.0 - xi) * np.log(xi)), Fxi, Fxi.absT()))
        else:
            terms.append((shifted, Fxi, Fxi.absT()))
            h3, h3s = integral("F3", lambda u: 1.0 / (u * u))  # h3 = int du F3(u)/u = int du (uF3)/u^2
            terms.append((2.0 * mu * x**3 / r**3, h3, h3s))
    elif kind == "g1":
        # G = 2x g1.  G_TMC(x) = 2x [ x/(xi r^3) G(xi)/(2 xi) + 4 x^2 mu / r^4 ( (x+xi)/xi * 1/2 int G/u^2 + (r^2-3)/(2r) * 1/2 int ln(u/xi) G/u^2 ) ]
        Gxi = raw_at("g1", xi)
        a = 4.0 * x * x * mu / r**4
        c1 = a * (x + xi) / xi / 2.0
        c2 = a * (r * r - 3.0) / (2.0 * r) / 2.0
        if mode == 2:
            k1a = (1.0 - xi) / xi
            k2a = 1.0 / xi - 1.0 + np.log(xi)
            terms.append((2.0 * x * (x / (xi * r**3) / (2.0 * xi) + c1 * k1a + c2 * k2a), Gxi, Gxi.absT()))
        else:
            terms.append((2.0 * x * x / (xi * r**3) / (2.0 * xi), Gxi, Gxi.absT()))
            k1, k1s = integral("g1", lambda u: 1.0 / (u * u))
            terms.append((2.0 * x * c1, k1, k1s))
            if mode == 3:
                k2, k2s = integral("g1", lambda u: np.log(u / xi) / (u * u))
                terms.append((2.0 * x * c2, k2, k2s))
    tot, sc = T(), T()
    for c, t, ta in terms:
        tot = tot + float(c) * t
        sc = sc + abs(float(c)) * ta
    return tot, sc


def run_case(case):
    yad = run.yad()
    th = cards.theory(**case["theory"])
    g = case["grid"]
    kind, mode = case["kind"], th["TMC"]
    name = f"{kind}_{case['heavy']}"
    nodes = list(g["xgrid"])
    M = th["MP"]
    mon = case["mon"]
    viol, nontrivial, classes = [], set(), {mon, kind, MODES[mode]}
    compared, margin, sample = 0, 0.0, None
    cell = f"{mon}|{kind}|{MODES[mode]}|{case['obs']['prDIS']}|{case['heavy']}|pto{th['PTODIS']}"

    def mkobs(obsd):
        return cards.observables(obsd, xgrid=g["xgrid"], deg=g["deg"], is_log=g["is_log"], **case["obs"])

    if mon == "reject":
        # a point whose Nachtmann variable is below the lowest node while x itself is inside
        Q2 = 0.5
        lo, hi = nodes[0], nodes[0] * 1.5
        for _ in range(200):  # largest x in the grid whose Nachtmann variable is still below the lowest node
            mid = 0.5 * (lo + hi)
            if tmc_vars(mid, Q2, M)[2] < nodes[0]:
                lo = mid
            else:
                hi = mid
        x = lo
        mu, r, xi = tmc_vars(x, Q2, M)
        if not (xi < nodes[0] <= x):
            return dict(status="inconclusive", reason="xi-not-below-grid")
        compared = 1
        try:
            out = run.run(th, mkobs({name: [dict(x=x, Q2=Q2)]}))
            viol.append(dict(sig=f"tmc-no-rejection|{kind}|{MODES[mode]}", what=f"{name} TMC={mode}: x={x!r} has xi={xi!r} below the lowest node {nodes[0]!r} but the run returned a result"))
        except Exception as e:  # noqa: BLE001 - classified: any explicit 'raise <Error>("message")' is a rejection, whatever its class
            from .c16 import classify_exception

            kind_, sig_, text_ = classify_exception(e)
            if kind_ == "rejected":
                nontrivial.add(cell)
                sample = dict(x=x, xi=xi, lowest_node=nodes[0], error=str(e)[:80])
            else:
                viol.append(dict(sig=f"tmc-bad-rejection|{kind}|{sig_}", what=f"{name} TMC={mode}: xi below the grid ends in an internal failure {text_} instead of an explicit error"))
        return dict(violations=viol, compared=compared, nontrivial=sorted(nontrivial), classes=sorted(classes), sample=sample)

    pts = [dict(x=p["x"], Q2=p["Q2"]) for p in case["points"]]
    if mon == "continuity":
        p = pts[0]
        raw = T.of(run.run(dict(th, TMC=0), mkobs({name: [p]}))[name][0])
        norms = []
        for Mv in (1.0, 0.3, 0.1, 0.03, 0.01, 0.0):
            try:
                r_ = T.of(run.run(dict(th, MP=Mv), mkobs({name: [p]}))[name][0])
            except ValueError:
                norms.append(None)
                continue
            d = max((run.absmax(r_.d[o] - raw.d[o]) for o in raw.d), default=0.0)
            norms.append(d)
            compared += 1
        scale = max((run.absmax(v) for v in raw.d.values()), default=0.0)
        if scale > 0:
            nontrivial.add(cell)
        if norms[-1] is None or norms[-1] > 1e-14 * scale:
            viol.append(dict(sig=f"tmc-m0|{kind}|{MODES[mode]}", what=f"{name} TMC={mode} with M=0 differs from the uncorrected result by {norms[-1]:.3g} (scale {scale:.3g})"))
        vals = [(Mv, nv) for Mv, nv in zip((1.0, 0.3, 0.1, 0.03, 0.01), norms) if nv is not None]
        for (Ma, na), (Mb, nb) in zip(vals[:-1], vals[1:]):
            # quadrature noise of two separate runs is ~1e-7..1e-6 of the scale at NLO/NNLO: only judge corrections well above it
            # entrywise the correction is O(M^2 ln^k M^2), not O(M^2): when xi crosses a grid node the plus-distribution terms of the
            # (exact) convolution with a piecewise polynomial vary like d ln^(2k-1) d in the distance d ~ M^2 to the node (measured at
            # NNLO: 0.7% of an entry within d = 1e-6, in yadism and in yadmon.quad alike).  "Vanishes continuously": at least linearly in M
            if Ma <= 0.3 and na > 1e-4 * scale and nb > 1.5 * na * (Mb / Ma) + 1e-6 * scale:
                viol.append(dict(sig=f"tmc-continuity|{kind}|{MODES[mode]}", what=f"{name} TMC={mode} x={p['x']:.4g} Q2={p['Q2']:.4g}: |TMC-raw| = {na:.3g} at M={Ma} but {nb:.3g} at M={Mb}: does not shrink with M"))
        sample = dict(obs=name, point=p, M=[1.0, 0.3, 0.1, 0.03, 0.01, 0.0], dev=norms, scale=scale)
        return dict(violations=viol, compared=compared, nontrivial=sorted(nontrivial), classes=sorted(classes), sample=sample)

    # formula monitor
    interp = run.interpolator(mkobs({}))
    if case.get("regrid"):
        # the very same request first on other grids (same size but other nodes / other degree) in this process: run-wide or
        # process-wide memos of TMC ingredients that forget the grid would now serve stale numbers to the judged run
        classes.add("regrid")
        g2 = [float(v) for v in np.array(g["xgrid"][:-1]) ** 0.93] + [1.0]
        for xg_, deg_ in ((g2, g["deg"]), (g["xgrid"], max(1, g["deg"] - 1))):
            try:
                run.run(th, cards.observables({name: pts}, xgrid=xg_, deg=deg_, is_log=g["is_log"], **case["obs"]))
            except ValueError:
                pass
    if case.get("twice"):
        # the published formula must also hold for the second evaluation of the same element: the same point listed twice and the
        # results asked twice from one runner (state kept on the TMC objects between evaluations)
        classes.add("twice")
        rn = yad.Runner(th, mkobs({name: pts + [dict(pts[0])]}))
        rn.get_result()
        out = rn.get_result()
        out[name] = out[name][1:] + out[name][:1] if False else out[name]
        pts = pts + [dict(pts[0])]
    else:
        out = run.run(th, mkobs({name: pts}))
    for p, res in zip(pts, out[name]):
        mu, r, xi = tmc_vars(p["x"], p["Q2"], M)
        need = {xi} | {nodes[j] for j, bf in enumerate(interp) if not bf.is_below_x(xi)}
        need = sorted(u for u in need if u >= nodes[0])
        kinds_needed = {kind} | ({"F2"} if kind in ("FL",) else set())
        rawobs = {f"{k}_{case['heavy']}": [dict(x=u, Q2=p["Q2"]) for u in need] for k in kinds_needed}
        rawout = run.run(dict(th, TMC=0), mkobs(rawobs))
        table = {(k, u): T.of(rawout[f"{k}_{case['heavy']}"][i]) for k in kinds_needed for i, u in enumerate(need)}
        exp, sc = expected(kind, mode, p["x"], p["Q2"], M, lambda k, u: table[(k, u)], interp, nodes)
        got = T.of(res)
        if res.x != p["x"] or res.Q2 != p["Q2"]:
            viol.append(dict(sig="tmc-kinematics-echo", what=f"{name}: TMC result carries x={res.x}, Q2={res.Q2} instead of the requested ({p['x']},{p['Q2']})"))
        for o in got.d:
            e = exp.d.get(o, np.zeros_like(got.d[o]))
            s = sc.d.get(o, np.zeros_like(got.d[o]))
            smax = float(np.max(s)) if np.ndim(s) else 0.0
            mg, d = run.cmp(got.d[o], e + np.zeros_like(got.d[o]), smax, RTOL, 1e-300)
            compared += got.d[o].size
            if smax > 0:
                nontrivial.add(cell)
            if mg > 1:
                bad = np.unravel_index(np.argmax(np.abs(got.d[o] - e)), got.d[o].shape)
                viol.append(dict(sig=f"tmc-formula|{kind}|{MODES[mode]}", what=f"{name} TMC={mode} ({MODES[mode]}) {case['obs']['prDIS']} M={M:.4g} x={p['x']:.6g} xi={xi:.6g} Q2={p['Q2']:.6g} order {run.key(o)}: entry pid={cards.PIDS[bad[0]]} j={int(bad[1])} = {got.d[o][bad]:.10g}, published formula on the uncorrected operators gives {(e+np.zeros_like(got.d[o]))[bad]:.10g} (max dev/scale {d/max(smax,1e-300):.3g})",
                                 detail=dict(point=p, M=M, xi=xi, order=list(o))))  # fmt: skip
                break
            margin = max(margin, mg)
            if sample is None and smax > 0:
                bi = np.unravel_index(np.argmax(np.abs(e)), got.d[o].shape)
                sample = dict(obs=name, mode=MODES[mode], M=M, x=p["x"], xi=xi, Q2=p["Q2"], order=list(o), observed=float(got.d[o][bi]), formula=float((e + np.zeros_like(got.d[o]))[bi]), raw_points_used=len(need))
    return dict(violations=viol, compared=compared, nontrivial=sorted(nontrivial), classes=sorted(classes), margin=margin, sample=sample)
