"""C01 - operator entries are x * (coefficient function (x) basis function): kernel-replay oracle + in-span PDF oracle."""
import numpy as np

from .. import cards, nfref, pdfs, quad, run

PROP = "C01"
LEVEL = "exploration"
RULE = (
    "seeded cells over kinds x heavyness x process x scheme x PTO 0..3 (SV on in a subset), grids of 6-24 nodes, degree 1-5, "
    "log and linear, x from hostile classes (node, node*(1+-1e-9), between, lowest node, high x, x=1). A probe on "
    "Combiner.collect_elems records the kernels each ESF really used; (replay) for every kernel, order and basis function the "
    "convolution is recomputed by yadmon.quad (t=ln z, own break points, no border cuts) at the convolution point derived from "
    "physics, times the recorded weights, and compared entrywise with the (k,0,0,0) tensor; (span) an in-span PDF applied to the "
    "public output is compared with the direct convolution of the same kernels with the analytic PDF (no basis code). "
    "rtol by order 1e-12/1e-7/1e-5/3e-4 on sum|terms|. Distinct = (kind, heavyness, process, scheme, order, x class, oracle); "
    "non-trivial = a non-zero expected entry was compared."
    " A probe on Runner.replace_nans_with_0 counts the entries the runner hands over as 0 after a non-finite convolution (each one is an entry that is not the convolution). NLO rtol 1e-6 since the thorough sweeps (QUADPACK's heuristic error next to end-point singularities), plus 5e-9/(1-xi) for the documented 1e-10 border cut."
)
ASSUMPTIONS = [
    "eko BasisFunction.evaluate_x and scipy.integrate.quad are trusted",
    "for a convolution point in [1-1e-9,1] the documented 'empty domain' convention (exact zeros) is monitored instead of the delta term",
    "the coefficient functions (RSL objects) are taken from the code: whether they are the right physics is C02-C04/C08",
]
# NLO: scipy.quad's nominal epsrel is 1.5e-8, but QUADPACK accepts a panel on a heuristic error estimate that is optimistic next to
# square-root / ln(1-z) end points (massive threshold, z -> 1): measured excursions of 2.7e-7 (heavy NC gluon, 3e-10 reported) and
# 1.4e-6 (two-loop product kernel, C05) against brute-force quadrature, once in several thousand runs
RTOL = {0: 1e-12, 1: 1e-6, 2: 1e-5, 3: 3e-4}
HEAVY = {"charm": 4, "bottom": 5, "top": 6}


BORDER = 5e-9  # 2 * eps_integration_border * |ln eps_integration_border|, per unit length of the integration range


def budget(tier):
    return 280 if tier == "quick" else 1700


def floor(tier):
    return dict(min_conclusive=25 if tier == "quick" else 500, min_nontrivial=40 if tier == "quick" else 300,
                classes=["node", "between", "replay", "span", "light", "heavy", "intrinsic", "asy"], probes=["collect_elems", "kernels", "oracle_integrals"], min_compared=1500)  # fmt: skip


def cases(tier, rng):
    n = 128 if tier == "quick" else 6000
    import json
    import pathlib

    # anchors: witnesses of earlier findings that random sampling reaches too rarely (F-23: a massive kernel whose partonic
    # threshold falls inside one integration sub-interval in the unlucky way)
    out = json.loads((pathlib.Path(__file__).parent / "c01_anchors.json").read_text())
    # anchor for the open finding F-26: entries silently set to 0 where a dependency overflows (x = 1e-6 at Q2/m2 ~ 1e6); only the
    # zeroing probe is judged there (the independent quadrature meets the same overflow and has no value to offer)
    gz = dict(xgrid=cards.grid(6, 4, x_min=1e-7), deg=3, is_log=True)
    for k_, (kind_, proc_) in enumerate((("FL", "EM"), ("F3", "NC"))):
        out.append(dict(id=f"c01-anchor-zeroed{k_}", kind=kind_, heavy="light", grid=gz, points=[dict(x=1e-6, Q2=2.0e6, cls="lowest")], probe_only=True,
                        pdf=pdfs.SpanPDF.random(rng, 3, True), theory=dict(PTO=2, FNS="FFNS", NfFF=3), obs=dict(prDIS=proc_, ProjectileDIS="electron"), kinds=[kind_]))  # fmt: skip
    # anchor for the open finding F-30: the intrinsic NLO neutral-current kernels lose all digits for Q2/m2 >~ 9e7 (whole O(a_s) entries nan,
    # handed over as 0), at every x; far beyond any measured region, reached by two fixed requests in every run
    for k_, (kind_, heavy_, proc_, fns_) in enumerate((("F2", "charm", "EM", "FFNS"), ("FL", "total", "NC", "FONLL-FFNS"))):
        out.append(dict(id=f"c01-anchor-zeroed-hiq{k_}", kind=kind_, heavy=heavy_, grid=gz, points=[dict(x=0.1, Q2=3.0e8, cls="bulk")], probe_only=True,
                        pdf=pdfs.SpanPDF.random(rng, 3, True), theory=dict(PTO=1, FNS=fns_, NfFF=3), obs=dict(prDIS=proc_, ProjectileDIS="electron"), kinds=[kind_]))  # fmt: skip
    # anchors for the massive charged-current kernels at O(a_s) (their gluon coefficients are Python closures over per-call lists): a cell
    # the random draw of the quick tier reaches only now and then
    for k_, (kind_, heavy_, fns_, proj_) in enumerate((("FL", "charm", "FFNS", "neutrino"), ("F2", "total", "FONLL-FFNS", "antineutrino"), ("F3", "charm", "FFNS", "electron"))):
        ga = cards.rand_grid(rng)
        out.append(dict(id=f"c01-anchor-ccmassive{k_}", kind=kind_, heavy=heavy_, grid=ga, points=cards.rand_points(rng, ga["xgrid"], n=2, q2lo=5.0, q2hi=200.0, xmax=0.6),
                        pdf=pdfs.SpanPDF.random(rng, ga["deg"], ga["is_log"]), theory=dict(PTO=1, FNS=fns_, NfFF=3), obs=dict(prDIS="CC", ProjectileDIS=proj_), kinds=[kind_]))  # fmt: skip
    for i in range(n):
        ptos = (0, 1, 1, 2, 2, 3) if tier == "thorough" else (0, 1, 1, 2, 3)
        cfg = cards.rand_config(rng, ptos=ptos, sv=(i % 5 == 0))
        th = cfg["theory"]
        if th["FNS"] in ("FFNS", "FONLL-FFNS") and th["PTO"] == 3:
            th["PTO"] = 2  # massive N3LO splines: slow python-level evaluation, covered in the thorough tier only
            if tier == "thorough" and rng.random() < 0.15:
                th["PTO"] = 3
        g = cards.rand_grid(rng, small=(tier == "quick" or rng.random() < 0.7))
        kind = cards.pick(rng, cfg["kinds"])
        heavy = cards.pick(rng, ["total", "total", "light", "charm", "bottom", "top"])
        pts = cards.rand_points(rng, g["xgrid"], n=2, q2lo=2.0, q2hi=2e4)
        if rng.random() < 0.1:
            pts.append(dict(x=1.0, Q2=cards.logu(rng, 2, 1e3), cls="x=1"))
        out.append(dict(id=f"c01-{i}", kind=kind, heavy=heavy, grid=g, points=pts, pdf=pdfs.SpanPDF.random(rng, g["deg"], g["is_log"]), **cfg))
    return out


def family_of(coeff):
    mod = type(coeff).__module__.split(".")
    # yadism.coefficient_functions.<family>.<kind>_<proc>
    fam = mod[2] if len(mod) > 3 else "?"
    proc = mod[3].split("_")[-1] if len(mod) > 3 else "?"
    return fam, proc


def physics_point(fam, proc, x, Q2, m2s):
    """Candidate convolution points from physics for a kernel of this family."""
    if fam in ("light", "asy"):
        return [x]
    if fam == "heavy":
        return [x] if proc == "nc" else [x * (1.0 + m2 / Q2) for m2 in m2s]
    if fam == "intrinsic":
        if proc == "cc":
            return [x]
        return [x * (1.0 + np.sqrt(1.0 + 4.0 * m2 / Q2)) / 2.0 for m2 in m2s]
    return [x]


def run_case(case):
    yad = run.yad()
    from yadism import coefficient_functions as cf
    from yadism.esf import conv

    th = cards.theory(**case["theory"])
    g = case["grid"]
    name = f"{case['kind']}_{case['heavy']}"
    pts = [dict(x=p["x"], Q2=p["Q2"]) for p in case["points"]]
    ob = cards.observables({name: pts}, xgrid=g["xgrid"], deg=g["deg"], is_log=g["is_log"], **case["obs"])
    rec = {}
    orig = cf.Combiner.collect_elems

    def spy(self):
        elems = orig(self)
        rec[id(self.esf)] = (self.esf, list(elems))
        return elems

    # the runner replaces non-finite entries by 0 before handing the output over (documented workaround for a dependency that
    # overflows at huge eta): an entry set to 0 that way is not the convolution any more, so the replacement is counted here
    import yadism.runner as yrunner

    zeroed = []
    orig_clean = yrunner.Runner.replace_nans_with_0

    def clean_spy(self, o_):
        for nm, pts_ in o_.items():
            if isinstance(pts_, list):
                for ip_, r_ in enumerate(pts_):
                    for ok_, (v_, _e) in getattr(r_, "orders", {}).items():
                        nbad = int(np.sum(~np.isfinite(np.asarray(v_))))
                        if nbad:
                            zeroed.append((nm, ip_, tuple(int(t) for t in ok_), nbad, int(np.asarray(v_).size)))
        return orig_clean(self, o_)

    cf.Combiner.collect_elems = spy
    yrunner.Runner.replace_nans_with_0 = clean_spy
    try:
        runner = yad.Runner(th, ob)
        out = runner.get_result()
    finally:
        cf.Combiner.collect_elems = orig
        yrunner.Runner.replace_nans_with_0 = orig_clean
    interp = run.interpolator(ob)
    nodes = list(g["xgrid"])
    pdf = pdfs.make(case["pdf"])
    viol, nontrivial, classes = [], set(), set()
    compared, margin, sample = 0, 0.0, None
    probes = dict(collect_elems=len(rec), kernels=0, oracle_integrals=0, zeroed_nonfinite_entries=sum(z[3] for z in zeroed))
    mq = nfref.massive_quarks(th)
    for nm, ip_, ok_, nbad, size in zeroed:
        p_ = case["points"][ip_]
        m2min = min(({4: th["mc"], 5: th["mb"], 6: th["mt"]}[h] ** 2 for h in mq), default=None)
        etamax = None if m2min is None else p_["Q2"] / m2min * (1.0 - p_["x"]) / (4.0 * p_["x"])
        region = "nomass" if etamax is None else ("xi>=5e7" if p_["Q2"] / m2min >= 5e7 else ("etamax>=5e9" if etamax >= 5e9 else "etamax<5e9"))
        viol.append(dict(sig=f"nonfinite-zeroed|{case['kind']}|{case['heavy']}|{case['obs']['prDIS']}|o{ok_[0]}|{region}",
                         what=f"{nm} {case['obs']['prDIS']} {th['FNS']} PTO={th['PTODIS']} x={p_['x']:.4g} Q2={p_['Q2']:.5g}: {nbad} of {size} entries of order {ok_} were non-finite after the convolution and "
                              f"were returned as 0 by Runner.replace_nans_with_0 (max eta of the lightest massive quark {etamax if etamax is None else format(etamax, '.3g')})"))  # fmt: skip
    if case.get("probe_only"):
        return dict(violations=viol, compared=len(zeroed) + 1, nontrivial=[f"zeroing-probe|{name}|{th['FNS']}"], classes=["zeroing-probe"], probes=probes,
                    sample=dict(obs=name, points=pts, zeroed=[dict(order=list(z[2]), entries=z[3]) for z in zeroed]))  # fmt: skip
    if not rec:
        return dict(status="inconclusive", reason="probe-missing:Combiner.collect_elems", probes=probes)
    massive = nfref.massive_quarks(th)
    m2all = {4: th["mc"] ** 2, 5: th["mb"] ** 2, 6: th["mt"] ** 2}
    m2s = [m2all[h] for h in massive] if case["heavy"] not in HEAVY else [m2all[HEAVY[case["heavy"]]]]
    by_point = {}
    for esf, elems in rec.values():
        by_point[(esf.x, esf.Q2)] = elems
    pred = out.apply_pdf_alphas_alphaqed_xir_xif(pdf, lambda q: 4 * np.pi, lambda q: 1.0, 1.0, 1.0)  # a_s = 1: orders are separated below instead
    for i, p in enumerate(case["points"]):
        res = out[name][i]
        elems = by_point.get((p["x"], p["Q2"]))
        if elems is None:
            return dict(status="inconclusive", reason="probe-missed-esf", probes=probes)
        probes["kernels"] += len(elems)
        exp, scale = {}, {}
        span_exp, span_scale = {}, {}
        fams = set()
        kernel_level = 0
        lnn_ = np.log(np.array(nodes))
        above_ = [b - a for a, b in zip(lnn_[:-1], lnn_[1:]) if np.exp(b) >= p["x"]]
        steep = 1.0 / min(above_) if above_ else 1.0
        for k in elems:
            fam, proc = family_of(k.coeff)
            fams.add(fam)
            code_xi = k.coeff.convolution_point()
            cands = physics_point(fam, proc, p["x"], p["Q2"], m2s or list(m2all.values()))
            xi = min(cands, key=lambda c: abs(c - code_xi))
            compared += 1
            # 1e-10: the code's own expression for eta loses ~3e-13 to cancellation when m2 >> Q2; a wrong formula is off by O(m2/Q2)
            if abs(xi - code_xi) > 1e-10 * xi:
                viol.append(dict(sig=f"convolution-point|{fam}|{proc}", what=f"{name}: {type(k.coeff).__name__} ({fam}/{proc}) convolved at {code_xi!r}; physics gives {cands} for x={p['x']}, Q2={p['Q2']}"))
            xi = code_xi
            partons = np.array([k.partons.get(pid, 0.0) for pid in cards.PIDS])
            if xi >= 1.0 - 1e-9:
                continue
            extra_z = []
            if fam == "heavy" and proc == "nc":
                extra_z = [1.0 / (1.0 + 4.0 * m2 / p["Q2"]) for m2 in m2all.values()]
            fker = lambda u: sum(w * pdf.f(pid, u) for pid, w in k.partons.items())  # noqa: E731
            for o in range(th["PTODIS"] + 1):
                if not k.has_order(o):
                    continue
                rsl = k.coeff[o]()
                if rsl is None:
                    continue
                vec = np.zeros(len(nodes))
                svec = np.zeros(len(nodes))
                for j, bf in enumerate(interp):
                    if bf.is_below_x(xi):
                        continue
                    v, s, _ = quad.conv(rsl, xi, lambda u, bf=bf: bf.evaluate_x(u) if u <= 1.0 else 0.0, breaks_u=nodes, extra_z=extra_z)
                    probes["oracle_integrals"] += 1
                    vec[j], svec[j] = xi * v, xi * s
                exp[o] = exp.get(o, 0) + np.outer(partons, vec)
                scale[o] = scale.get(o, 0) + np.outer(np.abs(partons), svec)
                if fam == "heavy" and o >= 1 and kernel_level < 6:
                    # kernel-level replay for the threshold-limited massive kernels: the code's own convolve_vector on this very RSL,
                    # judged on the kernel's own scale (inside an entry a small heavy-quark kernel hides behind the light ones:
                    # this is how F-23, 8e-4 of the top-quark gluon kernel, was only 2e-6 of the entry)
                    kernel_level += 1
                    cv_, ce_ = conv.convolve_vector(rsl, interp, xi)
                    # (BORDER: the code stops 1e-10 short of both ends of the integration range, as documented; with ln(1-z) end points
                    # that costs ~ 2e-10 ln(1e10) / (1 - xi) of the kernel scale: 5e-9 in the bulk, 6e-6 at xi = 0.99925)
                    kt = (RTOL[o] * max(1.0, steep / 5.0) + BORDER / (1.0 - xi)) * float(np.max(svec)) + 5.0 * xi * np.abs(ce_) + 1e-300
                    km = float(np.max(np.abs(xi * cv_ - vec) / kt))
                    compared += len(vec)
                    classes.add("kernel-level")
                    if km > 1:
                        jb = int(np.argmax(np.abs(xi * cv_ - vec) / kt))
                        viol.append(dict(sig=f"kernel|o{o}|{fam}|{proc}|{type(k.coeff).__name__}", what=f"{name}: convolve_vector of {fam}.{type(k.coeff).__name__} order {o} at xi={xi:.6g} (Q2={p['Q2']:.5g}) gives {xi*cv_[jb]:.12g} for basis function {jb}, independent quadrature {vec[jb]:.12g} (|diff|/kernel scale {abs(xi*cv_[jb]-vec[jb])/max(float(np.max(svec)),1e-300):.3g}, reported error {xi*ce_[jb]:.2g})"))
                    else:
                        margin = max(margin, km)
                v, s, _ = quad.conv(rsl, xi, lambda u: fker(u) if u <= 1.0 else 0.0, extra_z=extra_z)
                # abs scale for the span oracle: sum over partons of |w| * |conv|-like size, use s with |f| bound
                probes["oracle_integrals"] += 1
                span_exp[o] = span_exp.get(o, 0.0) + xi * v
                span_scale[o] = span_scale.get(o, 0.0) + xi * s
        classes.update(fams)
        classes.add(p["cls"] if p["cls"] in ("node", "between") else p["cls"])
        if p["x"] >= 1.0 - 1e-9:
            # documented convention at the end point: exact zeros, finite
            z = all(np.all(np.asarray(v[0]) == 0) for v in res.orders.values())
            compared += 1
            if not z:
                viol.append(dict(sig="endpoint-convention", what=f"{name} at x={p['x']}: non-zero entries although the convolution domain is empty"))
            continue
        cellbase = f"{case['kind']}|{case['heavy']}|{case['obs']['prDIS']}|{th['FNS']}"
        lnn = np.log(np.array(nodes))
        above = [b - a for a, b in zip(lnn[:-1], lnn[1:]) if np.exp(b) >= p["x"]]
        steep = 1.0 / min(above) if above else 1.0
        # how well does the basis represent the in-span PDF in floating point on [x,1]?  (monomial-form round-off, grows with
        # degree and node density; the convolution amplifies it near x -> 1: allow 30x the measured residual)
        fnodes = np.array([[pdf.f(pid, xj) for xj in nodes] for pid in cards.PIDS])
        span_resid = 0.0
        for u in np.exp(np.linspace(np.log(p["x"]), 0.0, 41))[:-1]:
            bu = run.basis_at(interp, float(u))
            for ip_, pid in enumerate(cards.PIDS[:9:4]):
                ex_ = pdf.f(pid, float(u))
                span_resid = max(span_resid, abs(float(fnodes[cards.PIDS.index(pid)] @ bu) - ex_) / max(float(np.max(np.abs(fnodes[cards.PIDS.index(pid)]))), 1e-300))
        for o in range(th["PTODIS"] + 1):
            got = np.asarray(res.orders[(o, 0, 0, 0)][0])
            e = exp.get(o, np.zeros_like(got)) + np.zeros_like(got)
            s = scale.get(o, np.zeros_like(got)) + np.zeros_like(got)
            finite_both = np.isfinite(got) & np.isfinite(e)
            if not np.all(np.isfinite(got)):
                viol.append(dict(sig=f"nonfinite-entry|o{o}", what=f"{name} order {o}: non-finite operator entries"))
                continue
            smax = float(s.max())
            # "up to quadrature accuracy": besides the calibrated rtol, allow what the code itself reports as integration error
            # (a massive kernel's threshold kink inside the range is not among yadism's break points: measured 2.4e-6 relative
            # there, with an error estimate of the same size)
            errt = np.abs(np.asarray(res.orders[(o, 0, 0, 0)][1]))
            # yadism cuts the integration 1e-10 short of the borders (documented integration note); what is lost there grows with the
            # steepness of the basis functions near the convolution point (~ 1/node spacing in ln x): the rtol was calibrated on
            # 14-node grids (steepness ~ 1-5) and is scaled up on denser ones (measured 1.9e-7 at NLO for steepness 33)
            tolm = (RTOL[o] * max(1.0, steep / 5.0) + BORDER / max(1.0 - min(1.0 - 1e-12, p["x"]), 1e-12)) * smax + 5.0 * errt + 1e-300
            dm = np.abs(got - e)
            m, d = float(np.max(dm[finite_both] / tolm[finite_both])), float(np.max(dm[finite_both]))
            compared += got.size
            classes.add("replay")
            if np.any(e != 0):
                nontrivial.add(f"{cellbase}|o{o}|{p['cls']}|replay")
            if m > 1:
                bad = np.unravel_index(np.argmax(np.abs(got - e)), got.shape)
                viol.append(dict(sig=f"entry|o{o}|{'+'.join(sorted(fams))}", what=f"{name} {case['obs']['prDIS']} {th['FNS']} order {o} x={p['x']:.9g} ({p['cls']}) Q2={p['Q2']:.6g}: entry pid={cards.PIDS[bad[0]]} j={int(bad[1])} = {got[bad]:.12g}, independent quadrature {e[bad]:.12g} (|diff|/scale {d/max(smax,1e-300):.3g}, tol {RTOL[o]:g})",
                                 detail=dict(point=p, order=o, pid=cards.PIDS[bad[0]], j=int(bad[1]), observed=float(got[bad]), expected=float(e[bad]))))  # fmt: skip
            else:
                margin = max(margin, m)
                if sample is None and np.any(e != 0):
                    bi = np.unravel_index(np.argmax(np.abs(e)), e.shape)
                    sample = dict(obs=name, x=p["x"], cls=p["cls"], Q2=p["Q2"], order=o, pid=cards.PIDS[bi[0]], j=int(bi[1]), observed=float(got[bi]), oracle=float(e[bi]))
            # span oracle on the public output: contraction with the in-span PDF, order by order
            contr = float(np.sum(got * np.array([[pdf.f(pid, xj) for xj in nodes] for pid in cards.PIDS])))
            se, ss = span_exp.get(o, 0.0), span_scale.get(o, 0.0)
            # the in-span identity sum_j f(x_j) p_j(u) = f(u) itself only holds up to the round-off of eko's monomial-form basis
            # (measured up to 1e-7 on fine log grids): the span oracle cannot be sharper than that, the replay oracle above is
            m2_, d2 = run.cmp(contr, se, ss, max(RTOL[o] * max(1.0, steep / 5.0), 1e-7) * 3 + 30.0 * span_resid, float(np.sum(np.abs(np.asarray(res.orders[(o, 0, 0, 0)][1]) * fnodes))) * 5.0 + 1e-300)
            compared += 1
            classes.add("span")
            if ss > 0:
                nontrivial.add(f"{cellbase}|o{o}|{p['cls']}|span")
            if m2_ > 1:
                viol.append(dict(sig=f"span|o{o}|{'+'.join(sorted(fams))}", what=f"{name} order {o} x={p['x']:.9g} Q2={p['Q2']:.6g}: operator contracted with an in-span PDF = {contr:.12g}, direct convolution with the analytic PDF = {se:.12g} (scale {ss:.3g})"))
            else:
                margin = max(margin, m2_)
    return dict(violations=viol, compared=compared, nontrivial=sorted(nontrivial), classes=sorted(classes), margin=margin, probes=probes, sample=sample)
