"""C17 - applying a PDF contracts the operator with the right scales and couplings."""
import copy

import numpy as np

from .. import asref, cards, nfref, pdfs, run

PROP = "C17"
LEVEL = "exploration"
RULE = (
    "real runner outputs (SF and XS, PTO 0..2 with SV keys) plus, per case, extra fabricated order keys (alpha power l>0, "
    "log powers up to 3) added to the real results: (contract) apply_pdf_alphas_alphaqed_xir_xif vs an independent explicit "
    "contraction sum_orders a_s(xiR Q)^k alpha^l ln(1/xiR^2)^i ln(1/xiF^2)^j sum_{p,j} O[p,j] f_p(x_j, xiF^2 Q2)/x_j with "
    "Q2-dependent PDFs, PDFs lacking flavours and recording coupling callables (argument must be sqrt(Q2)*xiR; PDF must be "
    "asked at xiF^2 Q2 and never for a missing flavour); (linear) apply(a f + b g) = a apply(f) + b apply(g); (theory) the "
    "alpha_s callable built by apply_pdf/apply_pdf_theory is captured by a probe on ESFResult.apply_pdf and must reproduce the card's "
    "alphas at Qref and obey the exact RGE with the scheme's nf and the card's loop order on threshold-free intervals "
    "(own DOP853 integration, rtol 1e-5), and XIR, XIF, alphaqed must be the card's. Distinct = (mode, scheme, PTO, has XS, xi class); "
    "non-trivial = a non-zero prediction was compared (contract/linear) or a coupling interval was integrated (theory)."
    " In the theory mode half of the cases first apply the same output under a twin card differing in ONE coupling field (nfref, HQ, alphas, Qref, masses, thresholds, PTO, FNS, NfFF, MaxNfAs); one case in five uses an x-by-x lattice with shared Q2 values."
    " Half of the theory-mode cards put the matching scales away from the masses (kcThr, kbThr, ktThr in 0.5..3) and the coupling is compared with eko configured from the card on both sides of every (k m)^2 and inside the windows between m^2, k m^2 and (k m)^2."
)
ASSUMPTIONS = ["ModEv=EXA (exact solution of the RGE) for the RGE oracle; alpha_s thresholds and matching are eko's and only checked away from thresholds"]
RTOL = 1e-12


def budget(tier):
    return 240 if tier == "quick" else 1500


def floor(tier):
    return dict(min_conclusive=40 if tier == "quick" else 800, min_nontrivial=20 if tier == "quick" else 100,
                classes=["contract", "linear", "theory", "missing-flavour", "q2dep", "eko-reference", "twin-first", "unsorted-card-grid"], probes=["alphas_calls", "pdf_calls", "apply_pdf_probe"], min_compared=300)  # fmt: skip


def cases(tier, rng):
    n = 96 if tier == "quick" else 12000
    out = []
    for i in range(n):
        mode = ["contract", "linear", "theory"][i % 3]
        cfg = cards.rand_config(rng, ptos=(0, 1, 1, 2) if mode != "theory" else (0, 1, 2), sv=True, ew=False)
        cfg["theory"].update(RenScaleVar=True, FactScaleVar=True)
        g = cards.rand_grid(rng)
        names = [f"{cards.pick(rng, cfg['kinds'])}_{cards.pick(rng, ['total', 'light', 'charm'])}"]
        if rng.random() < 0.5:
            names.append(f"{cards.pick(rng, ['XSHERANC', 'XSHERACC', 'XSCHORUSCC', 'F1'])}_total")
        pts = cards.rand_points(rng, g["xgrid"], n=2, q2lo=3.0, q2hi=3e4, xmax=0.8)
        for p in pts:
            p["y"] = float(rng.uniform(0.1, 0.9))
        xi = dict(xiR=cards.logu(rng, 0.25, 4.0), xiF=cards.logu(rng, 0.25, 4.0))
        if rng.random() < 0.2:
            xi[cards.pick(rng, ["xiR", "xiF"])] = 1.0
        allp = cards.PIDS
        flav = [p for p in allp if rng.random() < 0.7] if rng.random() < 0.5 else allp
        pdf1 = (pdfs.SpanPDF.random(rng, g["deg"], g["is_log"], q2slope=float(rng.uniform(-0.2, 0.2)), flavors=flav) if rng.random() < 0.5
                else pdfs.SmoothPDF.random(rng, q2slope=float(rng.uniform(-0.2, 0.2)), flavors=flav))  # fmt: skip
        pdf2 = pdfs.SmoothPDF.random(rng, q2slope=float(rng.uniform(-0.2, 0.2)))
        c = dict(id=f"c17-{i}", twin_first=bool(i % 6 == 0), mode=mode, names=names, points=pts, xi=xi, pdf1=pdf1, pdf2=pdf2, ab=[float(rng.normal()), float(rng.normal())],
                 fake_orders=[[int(rng.integers(0, 4)), int(rng.integers(0, 3)), int(rng.integers(0, 4)), int(rng.integers(0, 4))] for _ in range(3)],
                 fake_seed=int(rng.integers(1 << 30)), as_par=[float(rng.uniform(0.1, 0.4)), float(rng.uniform(0.05, 0.3))], grid=g, **cfg)  # fmt: skip
        if i % 7 == 3:
            # the card lists the interpolation nodes in another order (descending / shuffled): the library sorts them, and everything
            # downstream must refer to the sorted nodes
            c["grid"] = dict(g, xgrid=[float(v) for v in (g["xgrid"][::-1] if i % 2 else rng.permutation(g["xgrid"]))])
            c["unsorted"] = True
        if mode == "theory":
            c["theory"].update(alphas=float(rng.uniform(0.10, 0.13)), Qref=float(cards.pick(rng, [91.2, 50.0, 10.0, 3.0])), XIR=cards.logu(rng, 0.5, 2.0), XIF=cards.logu(rng, 0.5, 2.0),
                               alphaqed=float(rng.uniform(0.007, 0.008)), ModEv="EXA")  # fmt: skip
            if i % 4 < 2:
                # matching scales away from the masses (k != 1): the flavour number of the coupling changes at (k m)^2, not at m^2 or k m^2
                for _ in range(20):  # (matching scales kept in increasing order: eko's atlas assumes sorted walls)
                    ks = {f"k{q}Thr": float(cards.pick(rng, [0.5, 0.7, 1.4, 2.0, 3.0])) for q in "cbt"}
                    t_ = cards.theory(**dict(c["theory"], **ks))
                    if t_["mc"] * ks["kcThr"] < t_["mb"] * ks["kbThr"] < t_["mt"] * ks["ktThr"]:
                        c["theory"].update(ks)
                        break
            th = cards.theory(**c["theory"])
            # nfref consistent with the scheme at Qref - or, in a third of the cases, the threshold count at Qref whatever the scheme,
            # so that the coupling has to be carried across matching scales; both heavy-quark mass schemes
            c["theory"]["nfref"] = nfref.nf_light(dict(th, FNS="ZM-VFNS"), th["Qref"] ** 2) if (th["FNS"] == "ZM-VFNS" or i % 9 < 3) else th["NfFF"]
            c["theory"]["HQ"] = cards.pick(rng, ["POLE", "POLE", "MSBAR"])
            if c["theory"]["HQ"] == "MSBAR":
                c["theory"].update(Qmc=th["mc"], Qmb=th["mb"], Qmt=th["mt"])
            if i % 2:
                c["poison"] = ["nfref", "HQ", "alphas", "Qref", "mc", "mb", "kcThr", "kbThr", "PTO", "FNS", "NfFF", "MaxNfAs"][(i // 6) % 12]
        if i % 5 == 2:
            # a lattice listed x by x: several points share a Q2 and the list is neither ascending nor descending in Q2
            q2s = [cards.logu(rng, 3.0, 3e4) for _ in range(3)]
            xs_ = [p["x"] for p in pts] + [float(rng.uniform(0.05, 0.6))]
            c["points"] = [dict(x=float(x_), Q2=float(q_), y=float(rng.uniform(0.1, 0.9)), cls="lattice") for x_ in xs_[:2] for q_ in q2s] + [dict(x=float(xs_[2]), Q2=float(q2s[1]), y=0.5, cls="lattice")]
        out.append(c)
    return out


class LinComb:
    def __init__(self, f, g, a, b):
        self.f, self.g, self.a, self.b = f, g, a, b

    def hasFlavor(self, pid):
        return self.f.hasFlavor(pid) or self.g.hasFlavor(pid)

    def xfxQ2(self, pid, x, Q2):
        return self.a * (self.f.xfxQ2(pid, x, Q2) if self.f.hasFlavor(pid) else 0.0) + self.b * (self.g.xfxQ2(pid, x, Q2) if self.g.hasFlavor(pid) else 0.0)


def independent(res, pdf, xgrid, a_s, alpha, xiR, xiF):
    """Explicit-loop contraction, no einsum, no code shared with ESFResult.apply_pdf."""
    muF2 = res.Q2 * xiF * xiF
    fmat = np.zeros((len(cards.PIDS), len(xgrid)))
    for ip, pid in enumerate(cards.PIDS):
        if not pdf.hasFlavor(pid):
            continue
        for j, xj in enumerate(xgrid):
            fmat[ip, j] = pdf.f(pid, xj, muF2)
    LR, LF = np.log(1.0 / xiR**2), np.log(1.0 / xiF**2)
    tot, scale = 0.0, 0.0
    for (k, l, i, j), (v, _e) in res.orders.items():
        pref = a_s**k * alpha**l * (LR**i if i else 1.0) * (LF**j if j else 1.0)
        c = float(np.sum(np.asarray(v) * fmat))
        tot += pref * c
        scale += abs(pref) * float(np.sum(np.abs(np.asarray(v) * fmat)))
    return tot, scale


def run_case(case):
    th = cards.theory(**case["theory"])
    g = case["grid"]
    obsd = {}
    for n in case["names"]:
        isxs = n.split("_")[0] in cards.XSS
        obsd[n] = [dict(x=p["x"], Q2=p["Q2"], **({"y": p["y"]} if isxs else {})) for p in case["points"]]
    ob = cards.observables(obsd, xgrid=g["xgrid"], deg=g["deg"], is_log=g["is_log"], **case["obs"])
    out = run.run(th, ob)
    # the nodes the operator columns refer to: the sorted grid (physics), not whatever the output claims
    xgrid = sorted(float(v) for v in g["xgrid"])
    mode = case["mode"]
    if case.get("unsorted"):
        pass
    if [float(v) for v in out["xgrid"]["grid"]] != xgrid:
        return dict(violations=[dict(sig="output-grid-not-sorted", what=f"the output's xgrid {[round(float(v),6) for v in out['xgrid']['grid']][:4]}... is not the sorted grid the operator columns refer to (card order {'unsorted' if case.get('unsorted') else 'sorted'})")], compared=1, classes=[case["mode"]])
    viol, nontrivial, classes = [], set(), {mode}
    if case.get("unsorted"):
        classes.add("unsorted-card-grid")
    compared, margin, sample = 0, 0.0, None
    probes = dict(alphas_calls=0, pdf_calls=0, apply_pdf_probe=0)
    xiR, xiF = case["xi"]["xiR"], case["xi"]["xiF"]
    hasxs = any(n.split("_")[0] in cards.XSS for n in case["names"])
    cell = f"{mode}|{th['FNS']}|pto{th['PTODIS']}|xs{int(hasxs)}|{'xi1' if 1.0 in (xiR, xiF) else 'xi'}"
    if mode in ("contract", "linear"):
        # fabricate additional order keys on the real results (public objects): alpha powers and high log powers
        frng = np.random.default_rng(case["fake_seed"])
        for n in obsd:
            for r in out[n]:
                shape = next(iter(r.orders.values()))[0].shape
                for o in case["fake_orders"]:
                    if tuple(o) not in r.orders:
                        r.orders[tuple(o)] = (frng.normal(size=shape), np.abs(frng.normal(size=shape)) * 1e-3)
    p1, p2 = pdfs.make(case["pdf1"]), pdfs.make(case["pdf2"])
    if len(p1.flavors) < len(cards.PIDS):
        classes.add("missing-flavour")
    if p1.q2slope != 0:
        classes.add("q2dep")
    a0, a1 = case["as_par"]
    as_calls, aq_calls = [], []

    def alpha_s(mu):
        as_calls.append(float(mu))
        return a0 / (1.0 + a1 * np.log(mu))

    def alpha_qed(mu):
        aq_calls.append(float(mu))
        return 0.0075 * (1.0 + 0.01 * np.log(mu))

    if mode == "contract":
        if case.get("twin_first"):
            # the very same PDF object is first applied to the output of the same card on a twin grid (same number of nodes, other
            # nodes) at the same scales: per-PDF memos of "the PDF on the grid" that forget the nodes would now be stale
            classes.add("twin-first")
            ob2 = cards.observables(obsd, xgrid=cards.warp_grid(g["xgrid"]), deg=g["deg"], is_log=g["is_log"], **case["obs"])
            try:
                run.run(th, ob2).apply_pdf_alphas_alphaqed_xir_xif(p1, alpha_s, alpha_qed, xiR, xiF)
            except ValueError:
                pass
            del as_calls[:], aq_calls[:]
        p1.calls.clear()
        pred = out.apply_pdf_alphas_alphaqed_xir_xif(p1, alpha_s, alpha_qed, xiR, xiF)
        probes["alphas_calls"] += len(as_calls)
        probes["pdf_calls"] += len(p1.calls)
        if sorted(pred.keys()) != sorted(obsd.keys()):
            viol.append(dict(sig="apply-keys", what=f"prediction keys {sorted(pred.keys())} != observables {sorted(obsd.keys())}"))
        mus = sorted({np.sqrt(p["Q2"]) * xiR for p in case["points"]})
        for lst, nm in ((as_calls, "alpha_s"), (aq_calls, "alpha_qed")):
            bad = [m for m in lst if min(abs(m - mm) for mm in mus) > 1e-12 * m]
            compared += len(lst)
            if bad or not lst:
                viol.append(dict(sig=f"coupling-argument|{nm}", what=f"{nm} callable was called with {bad[:3] or 'nothing'}; expected sqrt(Q2)*xiR in {mus}"))
        muf2 = sorted({p["Q2"] * xiF**2 for p in case["points"]})
        badf = [c for c in p1.calls if min(abs(c[2] - m) for m in muf2) > 1e-12 * c[2]]
        badp = [c for c in p1.calls if c[0] not in p1.flavors]
        badx = [c for c in p1.calls if min(abs(c[1] - xj) for xj in xgrid) > 0]
        compared += len(p1.calls)
        if badf:
            viol.append(dict(sig="pdf-scale-argument", what=f"PDF evaluated at muF2={badf[0][2]!r}; expected xiF^2*Q2 in {muf2}"))
        if badp:
            viol.append(dict(sig="pdf-missing-flavour-asked", what=f"PDF asked for pid {badp[0][0]} although hasFlavor is False"))
        if badx:
            viol.append(dict(sig="pdf-x-argument", what=f"PDF evaluated at x={badx[0][1]!r} which is not a grid node"))
        for n in obsd:
            for i, (r, pr) in enumerate(zip(out[n], pred.get(n, []))):
                mu = np.sqrt(r.Q2) * xiR
                exp, sc = independent(r, p1, xgrid, a0 / (1.0 + a1 * np.log(mu)) / (4 * np.pi), 0.0075 * (1.0 + 0.01 * np.log(mu)), xiR, xiF)
                m, d = run.cmp(pr["result"], exp, sc, RTOL, 1e-300)
                compared += 1
                if sc > 0:
                    nontrivial.add(cell)
                ok_kin = pr["x"] == r.x and pr["Q2"] == r.Q2 and (("y" in pr) == hasattr(r, "y")) and (pr.get("y") == getattr(r, "y", None))
                if not ok_kin:
                    viol.append(dict(sig="apply-kinematics-echo", what=f"{n}[{i}] prediction kinematics {pr} do not echo the result's ({r.x},{r.Q2})"))
                if m > 1:
                    viol.append(dict(sig="contraction", what=f"{n}[{i}] xiR={xiR:.4g} xiF={xiF:.4g}: apply_pdf gives {pr['result']:.14g}, independent contraction {exp:.14g} (scale {sc:.3g})",
                                     detail=dict(xiR=xiR, xiF=xiF, observed=pr["result"], expected=exp)))  # fmt: skip
                else:
                    margin = max(margin, m)
                    if sample is None and sc > 0:
                        sample = dict(obs=n, x=r.x, Q2=r.Q2, xiR=xiR, xiF=xiF, observed=pr["result"], expected=exp, orders=[list(o) for o in r.orders])
    elif mode == "linear":
        a, b = case["ab"]
        f = lambda pdf: out.apply_pdf_alphas_alphaqed_xir_xif(pdf, alpha_s, alpha_qed, xiR, xiF)  # noqa: E731
        r1, r2, r12 = f(p1), f(p2), f(LinComb(p1, p2, a, b))
        probes["alphas_calls"] += len(as_calls)
        probes["pdf_calls"] += len(p1.calls) + len(p2.calls)
        for n in obsd:
            for i in range(len(obsd[n])):
                exp = a * r1[n][i]["result"] + b * r2[n][i]["result"]
                # scale: abs-sum contraction
                _, s1 = independent(out[n][i], p1, xgrid, 0.02, 0.0075, xiR, xiF)
                _, s2 = independent(out[n][i], p2, xgrid, 0.02, 0.0075, xiR, xiF)
                sc = abs(a) * s1 + abs(b) * s2
                m, d = run.cmp(r12[n][i]["result"], exp, sc, 1e-11, 1e-300)
                compared += 1
                if sc > 0:
                    nontrivial.add(cell)
                if m > 1:
                    viol.append(dict(sig="linearity", what=f"{n}[{i}]: apply(a f+b g)={r12[n][i]['result']:.14g} but a apply(f)+b apply(g)={exp:.14g}"))
                else:
                    margin = max(margin, m)
                    if sample is None:
                        sample = dict(obs=n, a=a, b=b, lhs=r12[n][i]["result"], rhs=exp)
    else:  # theory
        from yadism.esf import result as resmod

        captured = []
        orig = resmod.ESFResult.apply_pdf

        def spy(self, lhapdf_like, pids, xg, alpha_s_, alpha_qed_, xiR_, xiF_, *more, **kw):  # (further, optional arguments are passed through)
            captured.append((alpha_s_, alpha_qed_, xiR_, xiF_, list(pids), list(xg)))
            return orig(self, lhapdf_like, pids, xg, alpha_s_, alpha_qed_, xiR_, xiF_, *more, **kw)

        if case.get("poison"):
            # the same output applied first under a card that differs in ONE field the coupling depends on: whatever the code keeps
            # between calls about "the coupling of this card" must tell the two cards apart
            tw = dict(out.theory)
            f_ = case["poison"]
            if f_ == "nfref":
                tw["nfref"] = 4 if tw.get("nfref") != 4 else 5
            elif f_ == "HQ":
                tw["HQ"] = "MSBAR" if tw.get("HQ", "POLE") == "POLE" else "POLE"
                tw.update(Qmc=tw["mc"], Qmb=tw["mb"], Qmt=tw["mt"])
            elif f_ in ("alphas", "Qref", "mc", "mb", "kcThr", "kbThr"):
                tw[f_] = tw[f_] * 1.07
            elif f_ == "PTO":
                tw["PTO"] = tw["PTO"] + 1 if tw["PTO"] < 2 else tw["PTO"] - 1
            elif f_ == "FNS":
                tw["FNS"] = "FFNS" if tw["FNS"] == "ZM-VFNS" else "ZM-VFNS"
            elif f_ == "NfFF":
                tw["NfFF"] = tw["NfFF"] + 1 if tw["NfFF"] < 5 else 4
            elif f_ == "MaxNfAs":
                tw["MaxNfAs"] = 4 if tw.get("MaxNfAs", 6) != 4 else 5
            try:
                out.apply_pdf_theory(p2, tw)
                classes.add("twin-card-first")
            except Exception:  # noqa: BLE001
                pass
        resmod.ESFResult.apply_pdf = spy
        try:
            pred = out.apply_pdf(p1)
        finally:
            resmod.ESFResult.apply_pdf = orig
        probes["apply_pdf_probe"] = len(captured)
        probes["pdf_calls"] += len(p1.calls)
        if not captured:
            return dict(status="inconclusive", reason="probe-missing:ESFResult.apply_pdf", probes=probes)
        als, aqed, xr, xf, pids_, xg_ = captured[0]
        compared += 3
        if xr != th["XIR"] or xf != th["XIF"]:
            viol.append(dict(sig="theory-xi", what=f"apply_pdf used xiR={xr}, xiF={xf}; card has XIR={th['XIR']}, XIF={th['XIF']}"))
        if aqed(10.0) != th["alphaqed"]:
            viol.append(dict(sig="theory-alphaqed", what=f"apply_pdf used alpha_qed={aqed(10.0)}; card has {th['alphaqed']}"))
        if pids_ != cards.PIDS or xg_ != xgrid:
            viol.append(dict(sig="theory-pids-grid", what="apply_pdf did not pass the output's pids/xgrid"))
        # prediction == independent contraction with the captured coupling
        for n in obsd:
            for i, (r, pr) in enumerate(zip(out[n], pred[n])):
                mu = np.sqrt(r.Q2) * th["XIR"]
                exp, sc = independent(r, p1, xgrid, als(mu) / (4 * np.pi), th["alphaqed"], th["XIR"], th["XIF"])
                m, d = run.cmp(pr["result"], exp, sc, RTOL, 1e-300)
                compared += 1
                if m > 1:
                    viol.append(dict(sig="contraction-theory", what=f"{n}[{i}]: apply_pdf gives {pr['result']:.14g}, independent contraction with the card's scales {exp:.14g}"))
                else:
                    margin = max(margin, m)
        # coupling vs eko configured from the card by the harness itself (mass scheme, thresholds, reference point, loop order)
        try:
            ref_as = asref.eko_alphas(th)
        except Exception as e:  # noqa: BLE001
            ref_as = None
            probes["eko_reference_failed"] = probes.get("eko_reference_failed", 0) + 1
        if ref_as is not None:
            classes.add("eko-reference")
            # (besides the points' own scales: the middle of every window between m^2, k m^2 and (k m)^2 and both sides of each matching scale)
            extra_mu = set()
            for q in "cbt":
                m_, k_ = th["m" + q], th["k" + q + "Thr"]
                extra_mu |= {m_ * k_ * 0.995, m_ * k_ * 1.005, m_ * k_**0.75, m_ * k_**0.25 if k_ != 1 else m_ * 1.1}
            for mu in sorted({float(np.sqrt(p_["Q2"]) * th["XIR"]) for p_ in case["points"]} | {1.3, 3.0, 20.0, 300.0} | {float(v) for v in extra_mu if 1.2 < v < 1e4}):
                try:
                    a_code, a_ref = als(mu), ref_as(mu)
                except Exception:  # noqa: BLE001
                    continue
                mg, d = run.cmp(a_code, a_ref, abs(a_ref), 1e-9)
                compared += 1
                if mg > 1:
                    viol.append(dict(sig=f"alphas-card|{th.get('HQ','POLE')}|{'zm' if th['FNS']=='ZM-VFNS' else 'ffn'}", what=f"alpha_s({mu:.5g}) built by apply_pdf = {a_code:.12g}; eko configured from the same card (HQ={th.get('HQ')}, {th['FNS']}, NfFF={th['NfFF']}, PTO={th['PTO']}, Qref={th['Qref']}, nfref={th['nfref']}, ModEv={th['ModEv']}, k=({th['kcThr']},{th['kbThr']},{th['ktThr']})) gives {a_ref:.12g}"))
                    break
                margin = max(margin, mg)
        # coupling: reference value and RGE
        nl = th["PTO"] + 1
        walls = sorted((th["m" + f] * th["k" + f + "Thr"]) ** 2 for f in "cbt")
        zm = th["FNS"] == "ZM-VFNS"
        qref2 = th["Qref"] ** 2
        nf_at_ref = (3 + sum(1 for w in walls if w <= qref2)) if zm else th["NfFF"]
        if th["nfref"] == nf_at_ref:
            got = als(th["Qref"])
            compared += 1
            m, d = run.cmp(got, th["alphas"], th["alphas"], 1e-6)
            if m > 1:
                viol.append(dict(sig="alphas-reference", what=f"alpha_s(Qref={th['Qref']}) = {got:.10g}, card says {th['alphas']} (nfref={th['nfref']}, {th['FNS']})"))
        # threshold-free intervals
        edges = [1.0] + [w for w in walls if 1.0 < w < 1e8] + [1e8] if zm else [1.0, 1e8]
        nint = 0
        for lo, hi in zip(edges[:-1], edges[1:]):
            lo2, hi2 = lo * 1.02, hi / 1.02
            if hi2 / lo2 < 1.5 or lo2 < 1.5:
                lo2 = max(lo2, 1.5)
                if hi2 / lo2 < 1.5:
                    continue
            mu2a = lo2 * (hi2 / lo2) ** 0.25
            mu2b = min(lo2 * (hi2 / lo2) ** 0.75, mu2a * 30.0)
            nf = (3 + sum(1 for w in walls if w <= mu2a)) if zm else th["NfFF"]
            aa, ab_ = als(np.sqrt(mu2a)) / (4 * np.pi), als(np.sqrt(mu2b)) / (4 * np.pi)
            exp = asref.evolve(aa, mu2a, mu2b, nf, nl)
            m, d = run.cmp(ab_, exp, abs(exp), 1e-5)
            compared += 1
            nint += 1
            nontrivial.add(cell + f"|nf{nf}")
            if m > 1:
                viol.append(dict(sig=f"alphas-rge|{'zm' if zm else 'ffn'}", what=f"alpha_s built from the card ({th['FNS']}, NfFF={th['NfFF']}, PTO={th['PTO']}) runs from mu2={mu2a:.5g} to {mu2b:.5g} as a={aa:.8g}->{ab_:.8g}; exact {nl}-loop RGE with nf={nf} gives {exp:.8g}",
                                 detail=dict(mu2a=mu2a, mu2b=mu2b, nf=nf, nloops=nl, observed=ab_, expected=exp)))  # fmt: skip
            else:
                margin = max(margin, m)
                if sample is None:
                    sample = dict(scheme=th["FNS"], nf=nf, nloops=nl, mu2=[mu2a, mu2b], a=[aa, ab_], rge=exp)
    return dict(violations=viol, compared=compared, nontrivial=sorted(nontrivial), classes=sorted(classes), margin=margin, probes=probes, sample=sample)
