"""C20 - runner leaves its inputs untouched and echoes them in the output: tracked containers + deep comparison."""
import copy
import io
import os
import tempfile
import traceback

import numpy as np

from .. import cards, pdfs, run

PROP = "C20"
LEVEL = "exploration"
RULE = (
    "the caller's cards are handed over as tracked dict/list subclasses (every mutating method logged with the calling "
    "frame) nested to full depth and deep-copied before; after Runner(...), get_result() twice, apply_pdf, dump_yaml/dump_tar "
    "the mutation log must be empty and a deep comparison with the copy equal; the output must echo exactly the given cards, "
    "the grid, pids (22,-6..-1,21,1..6) and projectilePID from independent literals; mutating the returned output must not "
    "reach the caller's cards (no aliasing) and a second construction from the same dict objects must give bit-identical results; "
    "compatibility.update must be idempotent for every FNS/target spelling and legacy key set. Distinct = (scheme, target spelling, "
    "legacy-key class, process, has XS); non-trivial = the run computed at least one non-zero tensor."
)
ASSUMPTIONS = ["mutations are observed through the dict/list API (__setitem__, update, pop, append, sort, ...); in-place edits of immutable leaves are impossible"]
PROJ_PID = {"electron": 11, "positron": -11, "neutrino": 12, "antineutrino": -12}
LEGACY = ["full", "no-ptodis", "no-fonllparts", "no-svflags", "ptodis-none", "minimal"]


def budget(tier):
    return 240 if tier == "quick" else 1500


def floor(tier):
    return dict(min_conclusive=40 if tier == "quick" else 800, min_nontrivial=30 if tier == "quick" else 150,
                classes=cards.SCHEMES + ["target-name", "target-dict"] + LEGACY, probes=["tracked_reads"], min_compared=400)  # fmt: skip


def cases(tier, rng):
    n = 100 if tier == "quick" else 6000
    out = []
    for i in range(n):
        cfg = cards.rand_config(rng, ptos=(0, 0, 1, 1, 2), sv=True, ew=False, schemes=[cards.SCHEMES[i % 5]])
        g = cards.rand_grid(rng)
        tmc = int(cards.pick(rng, [0, 0, 1]))
        cfg["theory"]["TMC"] = tmc
        kinds = [k for k in cfg["kinds"] if not (tmc and k in ("gL", "g4"))]
        names = [f"{cards.pick(rng, kinds)}_{cards.pick(rng, ['total', 'light', 'charm', 'bottom'])}"]
        if rng.random() < 0.4:
            names.append(f"{cards.pick(rng, ['XSHERANC', 'XSHERACC', 'F1', 'XSCHORUSCC'])}_total")
        pts = cards.rand_points(rng, g["xgrid"], n=2, q2lo=4.0, q2hi=2e3, xmax=0.7)
        for p in pts:
            p["x"] = float(max(p["x"], min(0.4, g["xgrid"][1] * 2.0)))
            p["y"] = float(rng.uniform(0.1, 0.9))
        target = cards.pick(rng, cards.TARGETS) if rng.random() < 0.6 else {"Z": float(rng.uniform(0, 5)), "A": 5.0}
        if i % 9 == 4:
            g = dict(g, xgrid=[float(v) for v in (g["xgrid"][::-1] if i % 2 else rng.permutation(g["xgrid"]))])  # nodes listed in another order
        out.append(dict(id=f"c20-{i}", names=names, points=pts, target=target, legacy=LEGACY[i % len(LEGACY)], grid=g,
                        shared_kin=bool(rng.random() < 0.3), **cfg))  # fmt: skip
    return out


LOG = []
READS = [0]


def _where():
    st = traceback.extract_stack(limit=6)[:-2]
    fr = [f for f in st if "/yadmon/" not in f.filename]
    f = fr[-1] if fr else st[-1]
    return f"{f.filename.split('/')[-1]}:{f.lineno}:{f.name}"


def _mut(name):
    def m(self, *a, **k):
        LOG.append((type(self).__name__, name, repr(a)[:80], _where()))
        return getattr(super(type(self), self), name)(*a, **k)

    return m


class TDict(dict):
    def __getitem__(self, k):
        READS[0] += 1
        return dict.__getitem__(self, k)

    def __reduce_ex__(self, protocol):
        # pickling/deep-copying yields a plain dict: copies made by the code under test are the callee's own objects
        return (dict, (), None, None, iter(self.items()))

    def copy(self):
        return dict(self)  # a copy is a plain dict, like dict.copy on the real cards


class TList(list):
    def __reduce_ex__(self, protocol):
        return (list, (), None, iter(self), None)

    def copy(self):
        return list(self)


for _n in ("__setitem__", "__delitem__", "pop", "popitem", "clear", "update", "setdefault", "__ior__"):
    setattr(TDict, _n, _mut(_n))
for _n in ("__setitem__", "__delitem__", "append", "extend", "insert", "pop", "remove", "clear", "sort", "reverse", "__iadd__", "__imul__"):
    setattr(TList, _n, _mut(_n))


def track(o):
    if isinstance(o, dict):
        d = TDict()
        for k, v in o.items():
            dict.__setitem__(d, k, track(v))
        return d
    if isinstance(o, list):
        l = TList()
        for v in o:
            list.append(l, track(v))
        return l
    return o


def plain(o):
    if isinstance(o, dict):
        return {k: plain(v) for k, v in o.items()}
    if isinstance(o, list):
        return [plain(v) for v in o]
    return o


def run_case(case):
    yad = run.yad()
    from yadism.input import compatibility
    from yadism.output import Output

    th = cards.theory(**case["theory"])
    leg = case["legacy"]
    # every spelling of the optional entries the upgrade reads: QED order 0/1/2 or absent
    qed = int(case["id"].split("-")[-1]) % 4 if case["id"].split("-")[-1].isdigit() else 0
    if qed == 3:
        th.pop("QED", None)
    else:
        th["QED"] = qed
    if leg in ("no-ptodis", "minimal"):
        th.pop("PTODIS")
    if leg == "ptodis-none":
        th["PTODIS"] = None
    if leg in ("no-fonllparts", "minimal"):
        th.pop("FONLLParts")
    if leg in ("no-svflags", "minimal"):
        th.pop("RenScaleVar")
        th.pop("FactScaleVar")
    g = case["grid"]
    obsd = {}
    shared = dict(x=case["points"][0]["x"], Q2=case["points"][0]["Q2"])
    for n in case["names"]:
        isxs = n.split("_")[0] in cards.XSS
        obsd[n] = [dict(x=p["x"], Q2=p["Q2"], **({"y": p["y"]} if isxs else {})) for p in case["points"]]
        if case["shared_kin"] and not isxs:
            obsd[n] = [shared, shared]  # the same dict object used twice
    ob = cards.observables(obsd, xgrid=g["xgrid"], deg=g["deg"], is_log=g["is_log"], TargetDIS=copy.deepcopy(case["target"]), **case["obs"])
    th0, ob0 = copy.deepcopy(th), copy.deepcopy(ob)
    tth, tob = track(th), track(ob)
    del LOG[:]
    READS[0] = 0
    viol, classes = [], {th["FNS"], "target-name" if isinstance(case["target"], str) else "target-dict", leg}
    compared = 0

    def check_untouched(stage):
        nonlocal compared
        compared += 2
        if LOG:
            t, meth, args, where = LOG[0]
            viol.append(dict(sig=f"input-mutated|{where.split(':')[0]}:{where.split(':')[-1]}", what=f"{stage}: caller's card mutated: {t}.{meth}{args} from {where} ({len(LOG)} mutation(s))"))
            del LOG[:]
        if plain(tth) != th0 or plain(tob) != ob0:
            diff = [k for k in set(th0) | set(plain(tth)) if plain(tth).get(k, "<missing>") != th0.get(k, "<missing>")] + [k for k in set(ob0) | set(plain(tob)) if plain(tob).get(k, "<missing>") != ob0.get(k, "<missing>")]
            viol.append(dict(sig="input-changed", what=f"{stage}: caller's cards differ from the deep copy taken before: keys {diff}"))

    r = yad.Runner(tth, tob)
    check_untouched("after Runner()")
    out1 = r.get_result()
    check_untouched("after get_result()")
    out2 = r.get_result()
    check_untouched("after 2nd get_result()")

    # aliasing, by object identity: no mutable container reachable from an output may be one of the caller's (or of another output's)
    def containers(o, acc):
        if isinstance(o, (dict, list)):
            if id(o) in acc:
                return acc
            acc[id(o)] = o
            for v in o.values() if isinstance(o, dict) else o:
                containers(v, acc)
        return acc

    mine = containers(tth, containers(tob, {}))
    for lab, o_ in (("1st", out1), ("2nd", out2)):
        theirs = containers(o_.theory, containers(o_.observables, containers(dict(o_), {})))
        shared = [v for k_, v in theirs.items() if k_ in mine]
        compared += 1
        if shared:
            viol.append(dict(sig="output-aliases-input", what=f"the {lab} output holds {len(shared)} of the caller's own card containers (e.g. {type(shared[0]).__name__} with {len(shared[0])} entries) instead of copies: later edits of the cards rewrite what the output recorded, and vice versa"))
            break
    t1_, t2_ = containers(dict(out1), {}), containers(dict(out2), {})
    if set(t1_) & set(t2_):
        compared += 1
        viol.append(dict(sig="outputs-share-state", what="two outputs of the same runner share mutable containers (editing one result edits the other)"))
    if viol:
        return dict(violations=viol, compared=compared, nontrivial=[], classes=sorted(classes), probes=dict(tracked_reads=READS[0]), sample=None)
    pdf = pdfs.make(pdfs.SmoothPDF.random(np.random.default_rng(1)))
    out1.apply_pdf_alphas_alphaqed_xir_xif(pdf, lambda q: 0.2, lambda q: 0.0078, 1.0, 1.0)
    out1.dump_yaml()
    tmp = tempfile.mkdtemp(prefix="yadmon-c20-")
    try:
        out1.dump_tar(os.path.join(tmp, "o.tar"))
    finally:
        import shutil

        shutil.rmtree(tmp, ignore_errors=True)
    check_untouched("after apply_pdf/dump")
    # echo
    compared += 6
    if plain(out1.theory) != th0:
        viol.append(dict(sig="echo-theory", what=f"output.theory is not the given theory card; differing keys {[k for k in set(th0)|set(out1.theory) if plain(out1.theory).get(k,'<missing>') != th0.get(k,'<missing>')]}"))
    if plain(out1.observables) != ob0:
        viol.append(dict(sig="echo-observables", what=f"output.observables is not the given card; differing keys {[k for k in set(ob0)|set(out1.observables) if plain(out1.observables).get(k,'<missing>') != ob0.get(k,'<missing>')]}"))
    # "the grid actually used": the card's nodes, sorted (that is what the operator columns refer to)
    if [float(v) for v in out1["xgrid"]["grid"]] != sorted(float(v) for v in g["xgrid"]) or out1["xgrid"]["log"] != g["is_log"] or out1["polynomial_degree"] != g["deg"]:
        viol.append(dict(sig="echo-grid", what=f"output grid/log/degree are not the (sorted) grid of the observables card: {[round(float(v),6) for v in out1['xgrid']['grid']][:4]}... vs {sorted(g['xgrid'])[:4]}..."))
    if list(out1["pids"]) != [22, -6, -5, -4, -3, -2, -1, 21, 1, 2, 3, 4, 5, 6]:
        viol.append(dict(sig="echo-pids", what=f"output pids {list(out1['pids'])}"))
    if out1["projectilePID"] != PROJ_PID[case["obs"]["ProjectileDIS"]]:
        viol.append(dict(sig="echo-projectile", what=f"projectilePID {out1['projectilePID']} for {case['obs']['ProjectileDIS']}"))
    for n in obsd:
        if len(out1[n]) != len(obsd[n]) or any(res.x != k["x"] or res.Q2 != k["Q2"] for res, k in zip(out1[n], obsd[n])):
            viol.append(dict(sig="echo-kinematics", what=f"{n}: results do not follow the requested kinematics order"))
    # aliasing: scribble on everything reachable from the output, the caller's cards must not move
    def scribble(o, depth=0):
        if isinstance(o, dict):
            for k in list(o.keys()):
                scribble(o[k], depth + 1)
            try:
                dict.__setitem__(o, "__scribble__", 1) if not isinstance(o, TDict) else o.__setitem__("__scribble__", 1)
            except Exception:
                pass
        elif isinstance(o, list):
            for v in o:
                scribble(v, depth + 1)
            try:
                o.append("__scribble__")
            except Exception:
                pass

    scribble(out1.theory)
    scribble(out1.observables)
    if LOG or plain(tth) != th0 or plain(tob) != ob0:
        compared += 1
        where = LOG[0][3] if LOG else "?"
        viol.append(dict(sig="output-aliases-input", what=f"editing output.theory/observables in place changed the caller's cards (the output holds the caller's objects, not copies)"))
        # restore the caller's cards for the remaining checks
        tth, tob = track(th0), track(ob0)
        del LOG[:]
    compared += 1
    # second construction from the same dict objects: bit-identical
    out3 = yad.Runner(tth, tob).get_result()
    check_untouched("after second construction")
    nz = False
    for n in obsd:
        for a, b, c in zip(out1[n], out2[n], out3[n]):
            nz = nz or any(run.absmax(v[0]) > 0 for v in a.orders.values())
            for other, lab in ((b, "second get_result"), (c, "second construction from the same dicts")):
                eq, why = run.same_bits(a, other)
                compared += 1
                if not eq:
                    viol.append(dict(sig="reconstruction-differs", what=f"{n}: {lab} differs: {why}"))
    # idempotence of the legacy upgrade
    t1, o1 = compatibility.update(copy.deepcopy(th0), copy.deepcopy(ob0))
    t1c, o1c = copy.deepcopy(t1), copy.deepcopy(o1)
    t2, o2 = compatibility.update(t1, o1)
    compared += 2
    if t2 != t1c or o2 != o1c:
        dk = [k for k in set(t1c) | set(t2) if t1c.get(k, "<missing>") != t2.get(k, "<missing>")] + [k for k in set(o1c) | set(o2) if o1c.get(k, "<missing>") != o2.get(k, "<missing>")]
        viol.append(dict(sig=f"update-not-idempotent|{'|'.join(sorted(map(str, dk)))}", what=f"compatibility.update(update(t,o)) != update(t,o): keys {dk} ({th['FNS']}, target {case['target']!r}, legacy class {leg})"))
    nontrivial = [f"{th['FNS']}|{'name' if isinstance(case['target'], str) else 'dict'}|{leg}|{case['obs']['prDIS']}|xs{int(len(case['names'])>1)}"] if nz else []
    sample = dict(scheme=th["FNS"], target=case["target"], legacy=leg, observables=case["names"], tracked_reads=READS[0], mutations_logged=0)
    return dict(violations=viol, compared=compared, nontrivial=nontrivial, classes=sorted(classes), probes=dict(tracked_reads=READS[0]), sample=sample)
