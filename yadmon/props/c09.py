"""C09 - heavy-quark production respects its kinematic thresholds: exact zeros, integrand probe, convolution-point probe."""
from fractions import Fraction

import numpy as np

from .. import cards, nfref, run

PROP = "C09"
LEVEL = "exploration"
RULE = (
    "(nc-exact) FFNS pair production F2/FL/g1_charm|bottom at points built from exactly representable numbers (x=1/2, Q2=(2m)^2) and one "
    "ulp below/above in x and in Q2; (nc-random) random (x,Q2,m) on both sides of W2=4m2 at a relative distance >= 1e-9, predicate "
    "evaluated in exact rational arithmetic on the float inputs: at/below threshold every row except the heavy quark's own (intrinsic) "
    "must be exactly 0.0 for every order key, clearly above it the gluon row must be non-zero; at PTO>=2 <kind>_light (pair radiation off "
    "light quarks) must be bit-identical to the run with 50% heavier quarks at/below threshold; every heavy NC RSL recorded by a probe on "
    "Combiner.collect_elems is evaluated at z beyond the partonic threshold z_max=1/(1+4m2/Q2) and must return exactly 0; (cc) a probe on "
    "conv.convolve_vector must see x(1+m2/Q2) for heavy CC kernels, and all light-quark rows must vanish when that exceeds 1. "
    "Distinct = (mode, kind, flavour, side, PTO); non-trivial = a threshold predicate was decided on a run whose above-threshold partner is non-zero."
    " With several massive quarks (FFNS, NfFF 3/4) every quark whose own threshold is still closed must be invisible (<kind>_light bit-identical when the masses from that quark upwards are raised by 50%) and must count like an absent quark (bit-identical to the same card in FONLL-FFNS, where only the lightest is massive). CC: twin points at the same Q2 and another x must be served by the very same kernel functions (reg/sing/loc evaluated at common arguments, bitwise)."
)
ASSUMPTIONS = ["'+-1 ulp' cases only for exactly representable constructions; random cases keep |W2/4m2-1| >= 1e-9"]
M2 = {"charm": "mc", "bottom": "mb", "top": "mt"}
MKEY = {4: "mc", 5: "mb", 6: "mt"}


def budget(tier):
    return 280 if tier == "quick" else 1500


def floor(tier):
    return dict(min_conclusive=40 if tier == "quick" else 800, min_nontrivial=20 if tier == "quick" else 60,
                classes=["at", "below", "above", "x-ulp", "q2-ulp", "cc", "chi>=1", "integrand", "missing-channel", "cc-twin", "closed-vs-absent"], probes=["collect_elems", "convolve_vector", "integrand_evals"], min_compared=500)  # fmt: skip


def cases(tier, rng):
    n = 90 if tier == "quick" else 9000
    out = []
    for i in range(n):
        mode = ["nc-exact", "nc-random", "cc"][i % 3]
        flavour = cards.pick(rng, ["charm", "bottom"])
        pto = int(cards.pick(rng, [1, 1, 2, 2, 3] if tier == "thorough" else [1, 2, 2]))
        kind = cards.pick(rng, ["F2", "FL", "g1"] if mode != "cc" else ["F2", "FL", "F3"])
        if kind == "g1":
            pto = min(pto, 2)
        scheme = cards.pick(rng, ["FFNS", "FFNS", "FONLL-FFNS"])
        nfff = 3 if flavour == "charm" else 4
        m = float(cards.pick(rng, [1.0, 1.25, 1.5, 2.0, 4.5, 5.0])) if mode == "nc-exact" else float(rng.uniform(1.2, 5.2))
        th = dict(PTO=pto, FNS=scheme, NfFF=nfff, mc=1.3, mb=4.7, mt=172.0)
        th[M2[flavour]] = m
        if flavour == "charm" and m >= th["mb"]:
            th["mb"] = m * 2.0
        if flavour == "bottom" and m <= th["mc"]:
            th["mc"] = m / 2.0
        pts = []
        if mode == "nc-exact":
            q2 = (2.0 * m) ** 2
            pts = [dict(x=0.5, Q2=q2, cls="at"), dict(x=float(np.nextafter(0.5, 1)), Q2=q2, cls="x-ulp"), dict(x=float(np.nextafter(0.5, 0)), Q2=q2, cls="x-ulp"),
                   dict(x=0.5, Q2=float(np.nextafter(q2, 0)), cls="q2-ulp"), dict(x=0.5, Q2=float(np.nextafter(q2, np.inf)), cls="q2-ulp"),
                   dict(x=0.25, Q2=q2, cls="above"), dict(x=0.75, Q2=q2, cls="below")]  # fmt: skip
        elif mode == "nc-random":
            for _ in range(5):
                x = float(rng.uniform(0.02, 0.9))
                side = cards.pick(rng, ["below", "above"])
                # W2 = Q2 (1-x)/x ; threshold Q2_thr = 4 m2 x/(1-x)
                q2thr = 4 * m * m * x / (1 - x)
                f = 1.0 + float(cards.pick(rng, [1e-9, 1e-6, 1e-3, 0.1, 1.0, 10.0]))
                q2 = q2thr * f if side == "above" else q2thr / f
                if q2 < 0.3:
                    continue
                pts.append(dict(x=x, Q2=float(q2), cls=side))
        else:
            for _ in range(4):
                x = float(rng.uniform(0.05, 0.95))
                q2 = float(cards.logu(rng, 0.5, 200.0))
                pts.append(dict(x=x, Q2=q2, cls="cc"))
            # twins at the same Q2 (same lambda) but another Bjorken x: the coefficient may depend on the kinematics only through lambda and
            # the variable it is convolved in, so the kernels of the two points must be the very same functions
            for t_ in range(min(2, len(pts))):
                pts.append(dict(x=float(pts[t_]["x"] * rng.uniform(0.5, 0.9)), Q2=pts[t_]["Q2"], cls="cc", twin_of=t_))
            pts.append(dict(x=0.7, Q2=float(m * m), cls="chi>=1"))
            pts.append(dict(x=0.5, Q2=float(m * m), cls="chi>=1"))  # chi == 1 exactly
        proc = "CC" if mode == "cc" else cards.pick(rng, ["EM", "NC"])
        out.append(dict(id=f"c09-{i}", mode=mode, kind=kind, flavour=flavour, theory=th, points=pts,
                        obs=dict(prDIS=proc, ProjectileDIS="neutrino" if proc == "CC" else "electron")))  # fmt: skip
    return out


def run_case(case):
    yad = run.yad()
    from yadism import coefficient_functions as cf
    from yadism.esf import conv

    th = cards.theory(**case["theory"])
    name = f"{case['kind']}_{case['flavour']}"
    g = cards.grid(8, 8, x_min=1e-3)
    pts = [dict(x=p["x"], Q2=p["Q2"]) for p in case["points"]]
    ob = cards.observables({name: pts}, xgrid=g, deg=3, **case["obs"])
    rec, cv = {}, []
    orig_ce, orig_cv = cf.Combiner.collect_elems, conv.convolve_vector

    def spy(self):
        elems = orig_ce(self)
        rec[(self.esf.x, self.esf.Q2)] = list(elems)
        return elems

    def spy_cv(c, interpolator, convolution_point):
        cv.append((c, float(convolution_point)))
        return orig_cv(c, interpolator, convolution_point)

    cf.Combiner.collect_elems = spy
    conv.convolve_vector = spy_cv
    try:
        out = yad.Runner(th, ob).get_result()
    finally:
        cf.Combiner.collect_elems = orig_ce
        conv.convolve_vector = orig_cv
    probes = dict(collect_elems=len(rec), convolve_vector=len(cv), integrand_evals=0)
    light_pair = {}
    if case["mode"] != "cc" and th["PTODIS"] >= 2 and case["kind"] in ("F2", "FL"):
        # the heavy pair radiated off a light quark ('missing' channel, O(a_s^2)) lives in <kind>_light: at/below the hadronic
        # threshold it must vanish, i.e. <kind>_light must not notice a 50% heavier quark (the light kernels are mass independent)
        lname = f"{case['kind']}_light"
        obl = cards.observables({lname: pts}, xgrid=g, deg=3, **case["obs"])
        # (per level: with several massive quarks - FFNS with NfFF=3 or 4 - every quark whose own threshold is still closed must stay
        # invisible, whatever lighter massive quark is already open: one variant per massive quark L, heavier masses for L and above)
        mq_ = nfref.massive_quarks(th)
        base_ = yad.run_yadism(th, obl)[lname]
        light_pair = {}
        for L_ in mq_:
            thv = dict(th)
            for h_ in mq_:
                if h_ >= L_:
                    thv[MKEY[h_]] = th[MKEY[h_]] * 1.5
            light_pair[L_] = (base_, yad.run_yadism(thv, obl)[lname])
        # ... and a closed quark must count like an absent one: FFNS with several massive quarks against the same card in FONLL-FFNS,
        # where only the lightest of them exists as a massive quark (a closed quark served with another quark's mass is invisible to
        # the mass variation above)
        absent_ref = None
        if th["FNS"] == "FFNS" and len(mq_) >= 2:
            absent_ref = yad.run_yadism(dict(th, FNS="FONLL-FFNS"), obl)[lname]
    m = th[M2[case["flavour"]]]
    hq = {"charm": 4, "bottom": 5, "top": 6}[case["flavour"]]
    viol, nontrivial, classes = [], set(), set()
    compared, sample = 0, None
    own = [run.pid_index(hq), run.pid_index(-hq)]
    others = [i for i in range(len(cards.PIDS)) if i not in own]
    g21 = run.pid_index(21)
    m2x = Fraction(m) ** 2
    any_above_nonzero = False
    for p, res in zip(case["points"], out[name]):
        classes.add(p["cls"])
        if case["mode"] != "cc":
            W2 = Fraction(p["Q2"]) * (1 - Fraction(p["x"])) / Fraction(p["x"])
            below = W2 <= 4 * m2x
            for key, (val, err) in res.orders.items():
                val = np.asarray(val)
                compared += val[others].size
                if below and (np.any(val[others] != 0) or np.any(np.asarray(err)[others] != 0)):
                    i, j = np.unravel_index(np.argmax(np.abs(val[others])), val[others].shape)
                    viol.append(dict(sig=f"pair-threshold|{case['kind']}|{p['cls']}", what=f"{name} {th['FNS']} PTO={th['PTODIS']} m={m!r} x={p['x']!r} Q2={p['Q2']!r}: W2-4m2 = {float(W2-4*m2x):.3g} <= 0 but order {run.key(key)} has a non-zero pair-production entry {val[others][i,j]:.6g} (row pid={cards.PIDS[others[i]]})",
                                     detail=dict(point=p, m=m)))  # fmt: skip
                    break
            if light_pair:
                ip_ = case["points"].index(p)
                # the lightest massive quark whose pair threshold is still closed at this point (masses are ordered)
                closed = [h_ for h_ in sorted(light_pair) if W2 <= 4 * Fraction(th[MKEY[h_]]) ** 2]
                if closed:
                    L_ = closed[0]
                    eq, why = run.same_bits(light_pair[L_][0][ip_], light_pair[L_][1][ip_])
                    compared += 1
                    classes.add("missing-channel")
                    if L_ != hq:
                        classes.add("missing-channel-upper")
                    if not eq:
                        viol.append(dict(sig=f"pair-threshold-missing|{case['kind']}|{p['cls'] if L_ == hq else 'upper-quark'}", what=f"{case['kind']}_light {th['FNS']} NfFF={th['NfFF']} PTO={th['PTODIS']} x={p['x']!r} Q2={p['Q2']!r}: W2 = {float(W2):.6g} <= 4 m^2 = {4*th[MKEY[L_]]**2:.6g} of quark {L_} but the result changes when the masses of the quarks {[h_ for h_ in sorted(light_pair) if h_ >= L_]} are raised by 50% (pair radiation off light quarks contributes below its threshold): {why}"))
                if absent_ref is not None and W2 <= 4 * Fraction(th[MKEY[sorted(light_pair)[1]]]) ** 2:
                    eqa, whya = run.same_bits(light_pair[min(light_pair)][0][ip_], absent_ref[ip_])
                    compared += 1
                    classes.add("closed-vs-absent")
                    if not eqa:
                        viol.append(dict(sig=f"pair-threshold-missing|{case['kind']}|closed-vs-absent", what=f"{case['kind']}_light FFNS NfFF={th['NfFF']} PTO={th['PTODIS']} x={p['x']!r} Q2={p['Q2']!r}: W2 = {float(W2):.6g} is below the pair threshold of every massive quark but the lightest, yet the result differs from the same card with those quarks absent (FONLL-FFNS, NfFF={th['NfFF']}): {whya}"))
                eq0, _ = run.same_bits(light_pair[min(light_pair)][0][ip_], light_pair[min(light_pair)][1][ip_])
                if (not below) and float(W2 / (4 * m2x)) > 1.5 and not eq0:
                    any_above_nonzero = True
            above_clear = (not below) and float(W2 / (4 * m2x)) > 1.05
            if above_clear:
                nz = any(np.any(np.asarray(v[0])[g21] != 0) for k_, v in res.orders.items() if k_[0] >= 1)
                compared += 1
                any_above_nonzero = any_above_nonzero or nz
                if not nz and case["kind"] != "FL" or (not nz and th["PTODIS"] >= 1 and case["kind"] == "FL"):
                    viol.append(dict(sig=f"above-threshold-zero|{case['kind']}", what=f"{name}: W2/4m2 = {float(W2/(4*m2x)):.4g} > 1 but the gluon row vanishes for all orders >= 1 (threshold applied too eagerly)"))
            if sample is None:
                sample = dict(obs=name, m=m, x=p["x"], Q2=p["Q2"], W2_minus_4m2=float(W2 - 4 * m2x), below=bool(below), max_pair_entry=max(run.absmax(np.asarray(v[0])[others]) for v in res.orders.values()))
            # integrand probe
            elems = rec.get((p["x"], p["Q2"]), [])
            zmax = float(1 / (1 + 4 * m2x / Fraction(p["Q2"])))
            for k in elems:
                mod = type(k.coeff).__module__.split(".")
                if not (mod[2] == "heavy" and mod[3].endswith("_nc")):
                    continue
                for o in range(1, th["PTODIS"] + 1):
                    rsl = k.coeff[o]()
                    if rsl is None or rsl.reg is None:
                        continue
                    for z in (min(zmax * (1 + 1e-9), 1 - 1e-12), (zmax + 1) / 2, 1 - 1e-9):
                        if z <= zmax or z >= 1:
                            continue
                        v = rsl.reg(z, rsl.args["reg"])
                        probes["integrand_evals"] += 1
                        compared += 1
                        classes.add("integrand")
                        if v != 0:
                            viol.append(dict(sig=f"partonic-threshold|{mod[3]}|{type(k.coeff).__name__}", what=f"{mod[3]}.{type(k.coeff).__name__} order {o}: integrand at z={z!r} beyond z_max={zmax!r} is {v!r}, not 0 (Q2={p['Q2']}, m={m})"))
        else:
            chi = Fraction(p["x"]) * (1 + m2x / Fraction(p["Q2"]))
            heavy_cv = []
            for c, pt in cv:
                pass
            elems = rec.get((p["x"], p["Q2"]), [])
            for k in elems:
                mod = type(k.coeff).__module__.split(".")
                if mod[2] == "heavy" and mod[3].endswith("_cc"):
                    got = k.coeff.convolution_point()
                    compared += 1
                    if abs(got - float(chi)) > 1e-13 * float(chi):  # (the code forms x/lambda with lambda = 1/(1+m2/Q2): a few roundings)
                        viol.append(dict(sig=f"slow-rescaling|{mod[3]}", what=f"{mod[3]}.{type(k.coeff).__name__} convolved at {got!r}; slow rescaling x(1+m2/Q2) = {float(chi)!r}"))
            seen_pts = {pt for _c, pt in cv}
            compared += 1
            if float(chi) < 1 and not any(abs(pt - float(chi)) <= 1e-13 * float(chi) for pt in seen_pts):
                viol.append(dict(sig="slow-rescaling-not-seen", what=f"{name}: convolve_vector was never called at x(1+m2/Q2) = {float(chi)!r} (seen {sorted(seen_pts)[:4]})"))
            if chi >= 1:
                for key, (val, err) in res.orders.items():
                    val = np.asarray(val)
                    compared += val[others].size
                    if np.any(val[others] != 0):
                        viol.append(dict(sig=f"cc-beyond-endpoint|{case['kind']}", what=f"{name}: x(1+m2/Q2) = {float(chi):.6g} >= 1 but order {run.key(key)} has non-zero light-quark/gluon rows (max {run.absmax(val[others]):.3g})"))
                        break
            else:
                if any(np.any(np.asarray(v[0])[others] != 0) for v in res.orders.values()):
                    any_above_nonzero = True
            if sample is None:
                sample = dict(obs=name, m=m, x=p["x"], Q2=p["Q2"], chi=float(chi), convolution_points_seen=sorted(seen_pts)[:3])
            if "twin_of" in p:
                q = case["points"][p["twin_of"]]
                ea = [k for k in rec.get((q["x"], q["Q2"]), []) if type(k.coeff).__module__.split(".")[2] == "heavy"]
                eb = [k for k in elems if type(k.coeff).__module__.split(".")[2] == "heavy"]
                compared += 1
                if [type(k.coeff).__qualname__ for k in ea] != [type(k.coeff).__qualname__ for k in eb]:
                    if float(chi) < 1 and float(Fraction(q["x"]) * (1 + m2x / Fraction(q["Q2"]))) < 1:
                        viol.append(dict(sig="cc-twin-kernels", what=f"{name}: the points x={q['x']} and x={p['x']} at the same Q2={p['Q2']} are served by different kernel lists"))
                else:
                    for ka, kb in zip(ea, eb):
                        for o in range(th["PTODIS"] + 1):
                            ra, rb = (ka.coeff[o]() if ka.has_order(o) else None), (kb.coeff[o]() if kb.has_order(o) else None)
                            if ra is None or rb is None:
                                continue
                            for part, pts_ in (("reg", (0.31, 0.62, 0.93)), ("sing", (0.31, 0.62, 0.93)), ("loc", (0.23, 0.55, 0.87))):
                                fa, fb = getattr(ra, part), getattr(rb, part)
                                if fa is None or fb is None:
                                    continue
                                for z in pts_:
                                    va, vb = fa(z, ra.args[part]), fb(z, rb.args[part])
                                    compared += 1
                                    classes.add("cc-twin")
                                    if not (va == vb or (np.isnan(va) and np.isnan(vb))):
                                        viol.append(dict(sig=f"cc-depends-on-x|{type(ka.coeff).__module__.split('.')[3]}|{type(ka.coeff).__name__}|o{o}|{part}",
                                                         what=f"{type(ka.coeff).__module__.split('.')[3]}.{type(ka.coeff).__name__} order {o}: the {part} part at argument {z} is {va!r} for Bjorken x={q['x']!r} and {vb!r} for x={p['x']!r} at the same Q2={p['Q2']!r}, m={m!r}: "
                                                              "the coefficient depends on x other than through the slow-rescaling variable it is convolved in"))  # fmt: skip
                                        break
    if any_above_nonzero:
        for p in case["points"]:
            nontrivial.add(f"{case['mode']}|{case['kind']}|{case['flavour']}|{p['cls']}|pto{th['PTODIS']}")
    return dict(violations=viol, compared=compared, nontrivial=sorted(nontrivial), classes=sorted(classes), probes=probes, sample=sample)
