"""C11 - cross sections are the documented combinations of the structure functions of the same run."""
import numpy as np

from .. import cards, run

PROP = "C11"
LEVEL = "exploration"
RULE = (
    "one run per case containing XS<kind>_<h> together with F2_h, FL_h, F3_h (or g4, gL, g1) at the same (x,Q2): for every "
    "order key O_XS must equal N*(y+ O_F2 - yL O_FL +- y- O_F3) with N, y+, y-, yL re-implemented from docs/theory/intro.rst "
    "(XSFPFCC derived from XSCHORUSCC via dsigma/dxdQ2 = dsigma/dxdy/(2 M E x), i.e. 4 pi x), F3 sign from the lepton charge; "
    "all ten kinds, four projectiles, all heavynesses, PTO 0..2 with SV keys, TMC 0..3, y classes {->0+, bulk, =1}; y echoed. "
    "Distinct = (xs kind, heavyness, process, projectile, TMC, y class); non-trivial = at least two of the three SF tensors non-zero."
    " One case in four adds the twin of a bulk point with x and y exchanged at the same Q2."
    " Half of the cases ask the same cross-section kind for a second heavyness (with its own F2/FL/F3) and repeat the first point, so that every (kind, x, y, Q2, projectile) is evaluated several times within the judged run; all of them are judged."
)
ASSUMPTIONS = ["GeV^-2 -> 1e-38 cm^2 conversion 3.893793e10 (pb: /100) as documented for the CHORUS/NuTeV/FPF normalisations"]
RTOL = 1e-12
CONV = 3.893793e10


def coeffs(kind, x, y, Q2, proj, M, MW, GF):
    """(c_F2, c_FL, c_F3) from the documentation."""
    s = -1.0 if proj in ("positron", "antineutrino") else 1.0
    yp = 1.0 + (1.0 - y) ** 2
    ym = 1.0 - (1.0 - y) ** 2
    yL = y * y
    if kind == "F1" or kind == "g5":
        return np.array([1.0, -1.0, 0.0])
    if kind == "XSHERANC":
        return np.array([1.0, -yL / yp, s * ym / yp])
    if kind == "XSHERANCAVG":
        return np.array([1.0, -yL / yp, 0.0])
    if kind == "XSHERACC":
        return 0.25 * np.array([yp, -yL, s * ym])
    if kind == "FW":
        yLw = y * y / (2.0 * (y * y / 2.0 + (1.0 - y) - (M * x * y) ** 2 / Q2))
        return np.array([1.0, -yLw, 0.0])
    if kind == "XSFPFCC":
        N = (CONV / 100.0) * GF**2 / (4.0 * np.pi * x * (1.0 + Q2 / MW**2) ** 2)
        return N * np.array([yp, -yL, s * ym])
    ypc = yp - 2.0 * (x * y * M) ** 2 / Q2
    if kind == "XSCHORUSCC":
        N = CONV * GF**2 * M / (2.0 * np.pi * (1.0 + Q2 / MW**2) ** 2)
    elif kind == "XSNUTEVCC":
        N = 100.0 / (2.0 * (1.0 + Q2 / MW**2) ** 2)
    elif kind == "XSNUTEVNU":
        N = CONV * GF**2 * M / (2.0 * np.pi)
    else:
        raise ValueError(kind)
    return N * np.array([ypc, -yL, s * ym])


def budget(tier):
    return 240 if tier == "quick" else 1500


def floor(tier):
    return dict(min_conclusive=60 if tier == "quick" else 1200, min_nontrivial=40 if tier == "quick" else 300,
                classes=cards.XSS + ["y->0", "y=1", "tmc", "prerun", "repeated-evaluation"], min_compared=2000)  # fmt: skip


def cases(tier, rng):
    n = 150 if tier == "quick" else 10000
    out = []
    for i in range(n):
        kind = cards.XSS[i % len(cards.XSS)]
        cfg = cards.rand_config(rng, process="NC" if kind == "g5" else None, ptos=(0, 1, 1, 2) if tier == "thorough" else (0, 1, 1), sv=True)
        cfg["theory"]["MP"] = float(rng.uniform(0.0, 2.0))
        tmc = int(cards.pick(rng, [0, 0, 1, 2, 3])) if kind != "g5" else 0
        cfg["theory"]["TMC"] = tmc
        g = cards.rand_grid(rng)
        heavy = cards.pick(rng, ["total", "total", "light", "charm", "bottom", "top"])
        pts = cards.rand_points(rng, g["xgrid"], n=3, q2lo=4.0, q2hi=1e4, xmax=0.8)
        for p in pts:
            yc = cards.pick(rng, ["y->0", "bulk", "bulk", "y=1"])
            p["ycls"] = yc
            p["y"] = {"y->0": cards.logu(rng, 1e-12, 1e-3), "bulk": float(rng.uniform(0.02, 0.98)), "y=1": 1.0}[yc]
            if tmc:
                # the Nachtmann variable must stay inside the grid: choose x away from the lower end
                p["x"] = float(max(p["x"], min(0.5, g["xgrid"][1] * 2.0)))
        if i % 4 == 3:
            # a twin of a bulk point with x and y exchanged at the same Q2 (kinematics that collide in a key built from the values alone)
            for p in list(pts):
                if p["ycls"] == "bulk" and g["xgrid"][1] * 2.0 <= p["y"] <= 0.8 and p["x"] <= 0.98:
                    pts.append(dict(p, x=p["y"], y=p["x"], cls="swapped", ycls="bulk"))
                    break
        out.append(dict(id=f"c11-{i}", kind=kind, heavy=heavy, grid=g, points=pts, prerun=bool(i % 3 == 1), sibling=bool((i // len(cards.XSS)) % 2 == 0), **cfg))
    return out


def run_case(case):
    th = cards.theory(**case["theory"])
    g = case["grid"]
    kind, h = case["kind"], case["heavy"]
    sfs = ["g4", "gL", "g1"] if kind == "g5" else ["F2", "FL", "F3"]
    pts_sf = [dict(x=p["x"], Q2=p["Q2"]) for p in case["points"]]
    pts_xs = [dict(x=p["x"], Q2=p["Q2"], y=p["y"]) for p in case["points"]]
    # the same kind for a second heavyness and a repeated first point: every (kind, x, y, Q2, projectile) is evaluated several times in the
    # judged run, so whatever is remembered about such a point (and edited afterwards) meets its next use
    hs = [h] + ([{"total": "light", "light": "total"}.get(h, "total")] if case.get("sibling") else [])
    if case.get("sibling"):
        pts_sf, pts_xs, case = pts_sf + [dict(pts_sf[0])], pts_xs + [dict(pts_xs[0])], dict(case, points=case["points"] + [dict(case["points"][0])])
    obsd = {}
    for h_ in hs:
        obsd[f"{kind}_{h_}"] = [dict(p) for p in pts_xs]
        for s in sfs:
            obsd[f"{s}_{h_}"] = [dict(p) for p in pts_sf]
    ob = cards.observables(obsd, xgrid=g["xgrid"], deg=g["deg"], is_log=g["is_log"], **case["obs"])
    if case.get("prerun"):
        # the same cross-section requests first under the other processes in this process: whatever the code memoises about a
        # (kind, x, y, Q2, projectile) must not survive into the judged run
        for proc in ("EM", "NC", "CC"):
            if proc != case["obs"]["prDIS"] and not (proc == "CC" and kind == "g5"):
                try:
                    run.run(th, cards.observables({f"{kind}_{h}": pts_xs}, xgrid=g["xgrid"], deg=g["deg"], is_log=g["is_log"], **dict(case["obs"], prDIS=proc)))
                except (ValueError, NotImplementedError):
                    pass
    out = run.run(th, ob)
    viol, nontrivial, classes = [], set(), {kind}
    if th["TMC"]:
        classes.add("tmc")
    if case.get("prerun"):
        classes.add("prerun")
    compared, margin, sample = 0, 0.0, None
    proj = case["obs"]["ProjectileDIS"]
    if case.get("sibling"):
        classes.add("repeated-evaluation")
    for h, i, p in [(h_, i_, p_) for h_ in hs for i_, p_ in enumerate(case["points"])]:
        xs = out[f"{kind}_{h}"][i]
        parts = [out[f"{s}_{h}"][i] for s in sfs]
        c = coeffs(kind, p["x"], p["y"], p["Q2"], proj, th["MP"], th["MW"], th["GF"])
        if not np.all(np.isfinite(c)):
            continue
        if getattr(xs, "y", None) != p["y"] or xs.x != p["x"] or xs.Q2 != p["Q2"]:
            viol.append(dict(sig="xs-kinematics-echo", what=f"{kind}_{h}: result carries (x,Q2,y)=({xs.x},{xs.Q2},{getattr(xs,'y',None)}) for request ({p['x']},{p['Q2']},{p['y']})"))
        m, n, nz, worst = run.cmp_results(xs, [(float(ci), r) for ci, r in zip(c, parts)], RTOL)
        compared += n
        classes.add(p["ycls"])
        nzparts = sum(1 for r in parts if any(run.absmax(v[0]) > 0 for v in r.orders.values()))
        cell = f"{kind}|{h}|{case['obs']['prDIS']}|{proj}|tmc{th['TMC']}|{p['ycls']}"
        if nzparts >= 2:
            nontrivial.add(cell)
        if m > 1:
            viol.append(dict(sig=f"xs-combination|{kind}", what=f"{kind}_{h} {case['obs']['prDIS']}/{proj} TMC={th['TMC']} x={p['x']:.6g} Q2={p['Q2']:.6g} y={p['y']:.6g}: documented coefficients {c.tolist()} on ({','.join(sfs)}): {worst}",
                             detail=dict(point=p, coeffs=c.tolist(), margin=m)))  # fmt: skip
        else:
            margin = max(margin, m)
            if sample is None and nzparts >= 2:
                sample = dict(obs=f"{kind}_{h}", point=p, coeffs=c.tolist(), orders=len(xs.orders), margin=m)
    return dict(violations=viol, compared=compared, nontrivial=sorted(nontrivial), classes=sorted(classes), margin=margin, sample=sample)
