"""C06 - number of active flavours: probe on Combiner + public-API nf observables + threshold metamorphic pairs."""
import numpy as np

from .. import cards, nfref, run

PROP = "C06"
LEVEL = "exploration"
RULE = (
    "cases: (a) boundary: Q2 exactly at, one ulp below/above each matching scale (m*k)^2 built from exactly "
    "representable products, and random Q2; all five schemes x NfFF; the nf recorded by a probe on Combiner.__init__ and "
    "the nf visible in the public output (active quark rows of F2_light at LO; beta0 = -T(2,0,1,0)/T(1,0,0,0) at PTO 2) "
    "are compared with the exact-rational reference count; (b) metamorphic: two ZM-VFNS cards with different "
    "masses/kThr but the same reference nf at the requested Q2 must give bit-identical operators. "
    "Distinct = (scheme, NfFF, boundary class, reference nf, observation channel); non-trivial = an nf was actually compared."
)
ASSUMPTIONS = ["thresholds are generated in increasing order (eko's Atlas assumes sorted walls)"]


def budget(tier):
    return 240 if tier == "quick" else 1500


def floor(tier):
    return dict(min_conclusive=60 if tier == "quick" else 1500, min_nontrivial=25,
                classes=["at", "below", "above", "random", "beta0", "meta"], probes=["combiner_init"], min_compared=100)  # fmt: skip


def exact_mass(rng, lo, hi):
    """float with <= 20 mantissa bits so that squares and products with powers of two are exact."""
    return float(np.round(rng.uniform(lo, hi) * 1024) / 1024)


def cases(tier, rng):
    n = 140 if tier == "quick" else 4000
    out = []
    for i in range(n):
        scheme = cards.pick(rng, ["ZM-VFNS"] * 3 + cards.SCHEMES)
        nfff = int(rng.integers(3, 7)) if scheme in ("FFNS", "FFN0") else int(rng.integers(3, 6))
        mc, mb, mt = exact_mass(rng, 1.1, 2.0), exact_mass(rng, 3.5, 5.5), exact_mass(rng, 30.0, 60.0)
        ks = [float(cards.pick(rng, [0.5, 1.0, 2.0, 1.0])) for _ in range(3)]
        # keep the walls sorted
        while not (mc * ks[0] < mb * ks[1] < mt * ks[2]):
            ks = [1.0, 1.0, 1.0]
        th = dict(FNS=scheme, NfFF=nfff, mc=mc, mb=mb, mt=mt, kcThr=ks[0], kbThr=ks[1], ktThr=ks[2])
        walls = [(mc * ks[0]) ** 2, (mb * ks[1]) ** 2, (mt * ks[2]) ** 2]
        pts = []
        for _ in range(4):
            cls = cards.pick(rng, ["at", "below", "above", "random"])
            w = cards.pick(rng, walls)
            if cls == "at":
                q2 = w
            elif cls == "below":
                q2 = float(np.nextafter(w, 0))
            elif cls == "above":
                q2 = float(np.nextafter(w, np.inf))
            else:
                q2 = cards.logu(rng, 1.2, 1e4)
            pts.append(dict(Q2=q2, cls=cls))
        mode = "beta0" if rng.random() < (0.12 if tier == "quick" else 0.1) else ("meta" if (scheme == "ZM-VFNS" and rng.random() < 0.4) else "rows")
        c = dict(id=f"c06-{i}", mode=mode, theory=th, points=pts, process=cards.pick(rng, ["EM", "NC", "CC"]))
        if mode == "meta":
            # second card: different masses and ratios, same number of walls below each Q2 (rescale walls between the Q2 points)
            c["scale2"] = [float(rng.uniform(0.8, 1.25)) for _ in range(3)]
        out.append(c)
    return out


def _probe():
    from yadism import coefficient_functions as cf

    log = []
    orig = cf.Combiner.__init__
    if getattr(orig, "_yadmon", False):
        orig = orig._orig

    def wrapped(self, esf):
        orig(self, esf)
        log.append((float(esf.Q2), int(self.nf)))

    wrapped._yadmon = True
    wrapped._orig = orig
    cf.Combiner.__init__ = wrapped
    return log, lambda: setattr(cf.Combiner, "__init__", orig)


def run_case(case):
    th0 = case["theory"]
    mode = case["mode"]
    pto = 2 if mode == "beta0" else (1 if mode == "meta" else 0)
    th = cards.theory(PTO=pto, RenScaleVar=(mode == "beta0"), FactScaleVar=False, **th0)
    proc = case["process"]
    proj = "neutrino" if proc == "CC" else "electron"
    xg = cards.grid(5, 4, x_min=1e-3)
    x = xg[3]
    pts = [dict(x=x, Q2=p["Q2"]) for p in case["points"]]
    ob = cards.observables({"F2_light": pts}, xgrid=xg, deg=2, prDIS=proc, ProjectileDIS=proj)
    log, undo = _probe()
    try:
        out = run.run(th, ob)
    finally:
        undo()
    viol, nontrivial, classes = [], set(), set()
    compared = 0
    sample = None
    probes = dict(combiner_init=len(log))
    for p, res in zip(case["points"], out["F2_light"]):
        ref = nfref.nf_light(th, p["Q2"])
        cell = f"{th['FNS']}|NfFF{th['NfFF']}|{p['cls']}|nf{ref}"
        classes.add(p["cls"])
        # (1) probe: every Combiner built for this Q2 used the reference nf
        seen = sorted({nf for q2, nf in log if q2 == p["Q2"]})
        if seen:
            compared += 1
            nontrivial.add(cell + "|probe")
            if seen != [ref]:
                viol.append(dict(sig=f"nf-probe|{th['FNS']}|{p['cls']}", what=f"Combiner used nf={seen} at Q2={p['Q2']!r} ({p['cls']} wall), reference nf={ref} for {th['FNS']} NfFF={th['NfFF']} walls={[ (th['m'+f]*th['k'+f+'Thr'])**2 for f in 'cbt']}",
                                 detail=dict(point=p, seen=seen, ref=ref)))  # fmt: skip
        # (2) public: active quark rows at LO
        lo = res.orders[(0, 0, 0, 0)][0]
        active = sorted({abs(pid) for i, pid in enumerate(cards.PIDS) if pid not in (21, 22) and np.any(lo[i] != 0)})
        if proc != "CC":
            compared += 1
            nontrivial.add(cell + "|rows")
            if active != list(range(1, ref + 1)):
                viol.append(dict(sig=f"nf-rows|{th['FNS']}|{p['cls']}", what=f"F2_light LO has active quark rows {active} at Q2={p['Q2']!r} ({p['cls']}), reference nf={ref} ({th['FNS']} NfFF={th['NfFF']})",
                                 detail=dict(point=p, active=active, ref=ref)))  # fmt: skip
        if sample is None:
            sample = dict(Q2=p["Q2"], cls=p["cls"], reference_nf=ref, probe_nf=seen, active_rows=active)
        # (3) beta0 from the renormalisation-scale term
        if mode == "beta0":
            t1 = res.orders[(1, 0, 0, 0)][0]
            t2 = res.orders.get((2, 0, 1, 0))
            if t2 is None:
                viol.append(dict(sig="beta0-key-missing", what=f"no (2,0,1,0) key with RenScaleVar on; keys={list(res.orders)}"))
                continue
            i, j = np.unravel_index(np.argmax(np.abs(t1)), t1.shape)
            b0 = -t2[0][i, j] / t1[i, j]
            nf_eff = (11.0 - b0) * 1.5
            compared += 1
            classes.add("beta0")
            nontrivial.add(cell + "|beta0")
            if abs(nf_eff - ref) > 1e-6:
                viol.append(dict(sig=f"nf-beta0|{th['FNS']}", what=f"beta0 in the muR term corresponds to nf={nf_eff:.6f} at Q2={p['Q2']!r}, reference nf={ref}",
                                 detail=dict(point=p, beta0=float(b0), nf_eff=float(nf_eff), ref=ref)))  # fmt: skip
            # and the whole tensor is -beta0(ref) * T1
            m, d = run.cmp(t2[0], -nfref.beta0(ref) * t1, run.absmax(t1) * nfref.beta0(ref), 1e-12)
            compared += t1.size
            if m > 1:
                viol.append(dict(sig=f"nf-beta0-tensor|{th['FNS']}", what=f"(2,0,1,0) != -beta0(nf={ref})*(1,0,0,0): max dev {d:.3g}"))
    if mode == "meta":
        # second ZM card with other masses / ratios but the same count at every requested Q2
        s = case["scale2"]
        th2 = dict(th)
        ok = True
        for f, sc in zip("cbt", s):
            th2["m" + f] = th["m" + f] * sc
            th2["k" + f + "Thr"] = th["k" + f + "Thr"] * float(np.sqrt(1.0 / sc)) if False else th["k" + f + "Thr"]
        walls2 = [(th2["m" + f] * th2["k" + f + "Thr"]) for f in "cbt"]
        if not (walls2[0] < walls2[1] < walls2[2]):
            ok = False
        same = ok and all(nfref.nf_light(th, p["Q2"]) == nfref.nf_light(th2, p["Q2"]) for p in case["points"])
        if same:
            out2 = run.run(th2, ob)
            for p, a, b in zip(case["points"], out["F2_light"], out2["F2_light"]):
                eq, why = run.same_bits(a, b)
                compared += 1
                classes.add("meta")
                nontrivial.add(f"meta|nf{nfref.nf_light(th, p['Q2'])}|{p['cls']}")
                if not eq:
                    viol.append(dict(sig="zm-threshold-dependence", what=f"ZM-VFNS operators differ between two threshold settings with the same nf at Q2={p['Q2']!r}: {why}",
                                     detail=dict(theory2={k: th2[k] for k in ('mc','mb','mt','kcThr','kbThr','ktThr')})))  # fmt: skip
    return dict(violations=viol, compared=compared, nontrivial=sorted(nontrivial), classes=sorted(classes), probes=probes, sample=sample)
