"""C06 - number of active flavours: probe on Combiner + public-API nf observables + threshold metamorphic pairs."""
import numpy as np

from .. import cards, nfref, run

PROP = "C06"
LEVEL = "exploration"
RULE = (
    "cases: (a) boundary: Q2 exactly at, one ulp below/above each matching scale (m*k)^2 built from exactly "
    "representable products, and random Q2; all five schemes x NfFF; the nf recorded by a probe on Combiner.__init__ and "
    "the nf visible in the public output (active quark rows of F2_light at LO; beta0 = -T(2,0,1,0)/T(1,0,0,0) at PTO 2) "
    "are compared with the exact-rational reference count; (b) metamorphic: two ZM-VFNS cards with different "
    "masses/kThr but the same reference nf at the requested Q2 must give bit-identical operators; (c) inactive: in every scheme the rows "
    "of quark flavours that are neither among the nf light ones nor the massive quark a component is about must be exactly zero in every "
    "order key (total/light/charm/bottom/top, NC and CC, PTO 0..2); (d) multi-nf: a ZM-VFNS run over points in several nf regions must "
    "agree key by key (rtol 1e-10, SV keys included) with stand-alone runs of each point. "
    "(e) tagged: in ZM-VFNS/EM the gluon row of F2/FL_charm, _bottom, _top (tagged quark active) must be e_q^2/sum_{q'<=nf} e_q'^2 times the gluon row of the total at every central order, in each nf region above the tagged quark's own. "
    "Distinct = (scheme, NfFF, boundary class, reference nf, observation channel); non-trivial = an nf was actually compared."
)
ASSUMPTIONS = ["thresholds are generated in increasing order (eko's Atlas assumes sorted walls)"]


def budget(tier):
    return 240 if tier == "quick" else 1500


def floor(tier):
    return dict(min_conclusive=60 if tier == "quick" else 1500, min_nontrivial=25,
                classes=["at", "below", "above", "random", "beta0", "meta", "inactive", "multi-nf", "tagged"], probes=["combiner_init"], min_compared=100)  # fmt: skip


def exact_mass(rng, lo, hi):
    """float with <= 20 mantissa bits so that squares and products with powers of two are exact."""
    return float(np.round(rng.uniform(lo, hi) * 1024) / 1024)


def cases(tier, rng):
    n = 160 if tier == "quick" else 20000
    out = []
    # anchors: the beta0 identities on fixed-flavour schemes with two or three massive quarks (their intrinsic rows included)
    for k, (nfff, proc) in enumerate(((3, "NC"), (4, "NC"), (3, "CC"), (3, "EM"))):
        out.append(dict(id=f"c06-b{k}", mode="beta0", theory=dict(FNS="FFNS", NfFF=nfff, mc=1.4, mb=4.5, mt=170.0, kcThr=1.0, kbThr=1.0, ktThr=1.0),
                        points=[dict(Q2=cards.logu(rng, 30.0, 3e3), cls="random") for _ in range(2)], process=proc))  # fmt: skip
    for i in range(n):
        scheme = cards.pick(rng, ["ZM-VFNS"] * 3 + cards.SCHEMES)
        nfff = int(rng.integers(3, 7)) if scheme in ("FFNS", "FFN0") else int(rng.integers(3, 6))
        mc, mb, mt = exact_mass(rng, 1.1, 2.0), exact_mass(rng, 3.5, 5.5), exact_mass(rng, 30.0, 60.0)
        if i % 8 == 5:
            # masses whose square is exactly representable but for which a pow()-based square is known to be one ulp off
            # (about 1% of all such masses; this is how F-15 shows): the wall must still sit exactly at (m*k)^2
            mc = float(cards.pick(rng, [1.9990234375, 1.53515625, 1.3193359375, 1.8662109375]))
            mb = float(cards.pick(rng, [5.2998046875, 4.3466796875, 3.99609375, 3.5771484375, 3.9697265625]))
            mt = float(cards.pick(rng, [42.201171875, 59.7255859375, 59.693359375, 42.189453125]))
        ks = [float(cards.pick(rng, [0.5, 1.0, 2.0, 1.0])) for _ in range(3)]
        # keep the walls sorted
        while not (mc * ks[0] < mb * ks[1] < mt * ks[2]):
            ks = [1.0, 1.0, 1.0]
        th = dict(FNS=scheme, NfFF=nfff, mc=mc, mb=mb, mt=mt, kcThr=ks[0], kbThr=ks[1], ktThr=ks[2])
        walls = [(mc * ks[0]) ** 2, (mb * ks[1]) ** 2, (mt * ks[2]) ** 2]
        pts = []
        for _ in range(4):
            cls = cards.pick(rng, ["at", "below", "above", "random"] if i % 8 != 5 else ["at", "at", "below", "above"])
            w = cards.pick(rng, walls)
            if cls == "at":
                q2 = w
            elif cls == "below":
                q2 = float(np.nextafter(w, 0))
            elif cls == "above":
                q2 = float(np.nextafter(w, np.inf))
            else:
                q2 = cards.logu(rng, 1.2, 1e4)
            pts.append(dict(Q2=q2, cls=cls))
        mode = "beta0" if rng.random() < (0.12 if tier == "quick" else 0.1) else ("meta" if (scheme == "ZM-VFNS" and rng.random() < 0.4) else "rows")
        if i % 5 == 4:
            mode = "inactive"  # rows of flavours the scheme does not treat as active must vanish, all heavynesses / orders
        elif i % 10 == 3:
            mode = "multi-nf"  # one run spanning several nf regions vs stand-alone runs (runner-wide state keyed by nf)
            scheme = "ZM-VFNS"
            th["FNS"] = scheme
        elif i % 10 == 7:
            mode = "tagged"  # flavour-tagged massless observables: their gluon row is the tagged quark's share of the total's gluon row
            scheme = "ZM-VFNS"
            th["FNS"] = scheme
        c = dict(id=f"c06-{i}", mode=mode, theory=th, points=pts, process=cards.pick(rng, ["EM", "NC", "CC"]))
        if mode == "tagged":
            c["pto"] = int(cards.pick(rng, [1, 2]))
            c["kind"] = cards.pick(rng, ["F2", "FL"])
            c["process"] = "EM"
            reg = [float(np.sqrt(walls[0] * walls[1])), float(np.sqrt(walls[1] * walls[2])), float(walls[2] * 1.7)]
            c["points"] = [dict(Q2=q, cls="random") for q in reg]
        if mode == "inactive":
            c["pto"] = int(cards.pick(rng, [0, 1, 2]))
            c["kind"] = cards.pick(rng, ["F2", "FL", "F3"])
            c["points"] = [dict(Q2=cards.logu(rng, 3.0, 3e3), cls="random") for _ in range(2)]
        if mode == "multi-nf":
            c["pto"] = int(cards.pick(rng, [1, 2, 2]))
            c["kind"] = cards.pick(rng, ["F2", "FL", "F3"])
            # one point in each nf region, in random order
            reg = [float(np.sqrt(1.2 * walls[0])), float(np.sqrt(walls[0] * walls[1])), float(np.sqrt(walls[1] * walls[2])), float(walls[2] * 1.7)]
            c["points"] = [dict(Q2=reg[k], cls="random") for k in rng.permutation(4)[: int(rng.integers(2, 5))]]
        if mode == "meta":
            # second card: every matching scale is moved (mass and ratio changed) inside the gap between the requested Q2 values
            # that surround it, so the number of walls below each Q2 is the same for both cards
            c["points"] = [dict(Q2=cards.logu(rng, 1.2, 1e4), cls="random") for _ in range(4)]
            q2s = sorted(p["Q2"] for p in c["points"])
            new_walls, lo_lim = [], 1.0
            for w in walls:
                below = max([q for q in q2s if q < w] + [lo_lim])
                above = min([q for q in q2s if q >= w] + [w * 4.0])
                lo, hi = max(below * 1.02, lo_lim * 1.02), above / 1.02
                nw = float(np.exp(rng.uniform(np.log(lo), np.log(hi)))) if hi > lo else w
                new_walls.append(nw)
                lo_lim = nw
            k2 = [float(cards.pick(rng, [0.5, 1.0, 2.0, 1.5])) for _ in range(3)]
            c["theory2"] = {f"m{f}": float(np.sqrt(nw) / k) for f, nw, k in zip("cbt", new_walls, k2)}
            c["theory2"].update({f"k{f}Thr": k for f, k in zip("cbt", k2)})
        out.append(c)
    return out


def _probe():
    from yadism import coefficient_functions as cf

    log = []
    orig = cf.Combiner.__init__
    if getattr(orig, "_yadmon", False):
        orig = orig._orig

    def wrapped(self, esf):
        orig(self, esf)
        log.append((float(esf.Q2), int(self.nf)))

    wrapped._yadmon = True
    wrapped._orig = orig
    cf.Combiner.__init__ = wrapped
    return log, lambda: setattr(cf.Combiner, "__init__", orig)


def run_inactive(case):
    """Rows of quark flavours that are neither light (<= nf) nor the massive quark a component is about must be exactly zero."""
    th = cards.theory(PTO=case["pto"], RenScaleVar=True, FactScaleVar=True, **case["theory"])
    proc = case["process"]
    xg = cards.grid(5, 4, x_min=1e-3)
    pts = [dict(x=xg[3] * 1.1, Q2=p["Q2"]) for p in case["points"]]
    names = [f"{case['kind']}_{h}" for h in ("total", "light", "charm", "bottom", "top")]
    ob = cards.observables({n: pts for n in names}, xgrid=xg, deg=2, prDIS=proc, ProjectileDIS="neutrino" if proc == "CC" else "electron")
    out = run.run(th, ob)
    massive = nfref.massive_quarks(th)
    HQ = {"charm": 4, "bottom": 5, "top": 6}
    viol, nontrivial = [], set()
    compared = 0
    sample = None
    for n in names:
        h = n.split("_")[1]
        for p, res in zip(case["points"], out[n]):
            nf = nfref.nf_light(th, p["Q2"])
            allowed = set(range(1, nf + 1))
            if h == "total":
                allowed |= set(massive)
            elif h in HQ and HQ[h] in massive:
                allowed.add(HQ[h])
            if h in HQ and HQ[h] not in massive and HQ[h] > nf:
                allowed = set()  # the flavour is neither light nor massive here: nothing contributes
            for key, (val, _e) in res.orders.items():
                val = np.asarray(val)
                for q in range(1, 7):
                    if q in allowed:
                        continue
                    rows = val[[run.pid_index(q), run.pid_index(-q)]]
                    compared += rows.size
                    if np.any(rows != 0):
                        viol.append(dict(sig=f"inactive-flavour-row|{th['FNS']}|{h}|{proc}", what=f"{n} {proc} {th['FNS']} NfFF={th['NfFF']} PTO={th['PTODIS']} Q2={p['Q2']:.5g}: quark flavour {q} is neither one of the {nf} light flavours nor the massive quark of this component, but its rows are non-zero in order {run.key(key)} (max {run.absmax(rows):.3g})"))
                        break
            if any(run.absmax(v[0]) > 0 for v in res.orders.values()):
                nontrivial.add(f"{th['FNS']}|NfFF{th['NfFF']}|inactive|{h}|{proc}|pto{th['PTODIS']}")
            if sample is None:
                sample = dict(obs=n, scheme=th["FNS"], NfFF=th["NfFF"], nf=nf, allowed_flavours=sorted(allowed))
    return dict(violations=viol, compared=compared, nontrivial=sorted(nontrivial), classes=["inactive"], probes=dict(combiner_init=1), sample=sample)


def run_multinf(case):
    """One runner over points in several nf regions vs one stand-alone run per point: every order key must agree (rtol 1e-10)."""
    th = cards.theory(PTO=case["pto"], RenScaleVar=True, FactScaleVar=True, **case["theory"])
    proc = case["process"]
    xg = cards.grid(6, 5, x_min=1e-3)
    name = f"{case['kind']}_total"
    pts = [dict(x=xg[4] * 1.07, Q2=p["Q2"]) for p in case["points"]]
    mk = lambda pl: cards.observables({name: pl}, xgrid=xg, deg=3, prDIS=proc, ProjectileDIS="neutrino" if proc == "CC" else "electron")  # noqa: E731
    joint = run.run(th, mk(pts))
    viol, nontrivial = [], set()
    compared = 0
    for i, p in enumerate(pts):
        alone = run.run(th, mk([p]))[name][0]
        m, n, nz, worst = run.cmp_results(joint[name][i], [(1.0, alone)], 1e-10)
        compared += n
        nf = nfref.nf_light(th, p["Q2"])
        if nz:
            nontrivial.add(f"multi-nf|nf{nf}|{case['kind']}|{proc}|pto{th['PTODIS']}")
        if m > 1:
            viol.append(dict(sig=f"nf-crosstalk|{case['kind']}", what=f"{name} {proc} ZM-VFNS PTO={th['PTODIS']}: the point Q2={p['Q2']:.5g} (nf={nf}) computed together with points of other nf regions ({[round(q['Q2'],3) for q in pts]}) differs from the stand-alone run: {worst}"))
    return dict(violations=viol, compared=compared, nontrivial=sorted(nontrivial), classes=["multi-nf"], probes=dict(combiner_init=1),
                sample=dict(obs=name, Q2s=[p["Q2"] for p in pts], nfs=[nfref.nf_light(th, p["Q2"]) for p in pts]))  # fmt: skip


def run_tagged(case):
    """Electromagnetic, all quarks massless: the gluon row of F_<q> (q = charm, bottom, top, active at Q2) is e_q^2 / sum_{q' <= nf} e_q'^2
    times the gluon row of F_total at every central order - both are the gluon coefficient function for nf flavours times a charge
    weight - so a coefficient function built for another number of flavours than the one active at Q2 shows in the public output."""
    th = cards.theory(PTO=case["pto"], RenScaleVar=False, FactScaleVar=False, **case["theory"])
    xg = cards.grid(6, 5, x_min=1e-3)
    pts = [dict(x=xg[3] * 1.3, Q2=p["Q2"]) for p in case["points"]]
    HQ = {"charm": 4, "bottom": 5, "top": 6}
    names = [f"{case['kind']}_{h}" for h in ("total", *HQ)]
    out = run.run(th, cards.observables({n: pts for n in names}, xgrid=xg, deg=3, prDIS="EM", ProjectileDIS="electron"))
    e2 = {q: (4.0 / 9.0 if q % 2 == 0 else 1.0 / 9.0) for q in range(1, 7)}
    viol, nontrivial = [], set()
    compared = 0
    sample = None
    gi = run.pid_index(21)
    for ip, p in enumerate(case["points"]):
        nf = nfref.nf_light(th, p["Q2"])
        tot = out[names[0]][ip]
        for h, q in HQ.items():
            if q > nf:
                continue
            res = out[f"{case['kind']}_{h}"][ip]
            share = e2[q] / sum(e2[k] for k in range(1, nf + 1))
            for o in range(1, case["pto"] + 1):
                key = (o, 0, 0, 0)
                gt, gh = np.asarray(tot.orders[key][0])[gi], np.asarray(res.orders[key][0])[gi]
                et, eh = np.asarray(tot.orders[key][1])[gi], np.asarray(res.orders[key][1])[gi]
                scale = run.absmax(gt) * share
                dev = run.absmax(gh - share * gt)
                tol = 1e-9 * scale + 5.0 * (run.absmax(eh) + share * run.absmax(et))
                compared += gt.size
                if scale > 0:
                    nontrivial.add(f"tagged|{case['kind']}|{h}|nf{nf}|o{o}")
                if dev > tol:
                    viol.append(dict(sig=f"tagged-gluon-share|{case['kind']}|{h}|o{o}", what=f"{case['kind']}_{h} EM ZM-VFNS Q2={p['Q2']:.5g} (nf={nf}): gluon row of order {run.key(key)} is not e_q^2/sum e^2 = {share:.6g} times the gluon row of {names[0]} (max dev {dev:.3g} at scale {scale:.3g}; ratio observed {float(np.max(np.abs(gh)) / max(np.max(np.abs(gt)), 1e-300)):.6g}): the coefficient function was not built for the {nf} flavours active at this Q2"))
                elif sample is None and scale > 0:
                    sample = dict(obs=f"{case['kind']}_{h}", nf=nf, order=o, share=share, max_dev=dev, scale=scale)
    return dict(violations=viol, compared=compared, nontrivial=sorted(nontrivial), classes=["tagged"], probes=dict(combiner_init=1), sample=sample)


def run_case(case):
    if case["mode"] == "inactive":
        return run_inactive(case)
    if case["mode"] == "tagged":
        return run_tagged(case)
    if case["mode"] == "multi-nf":
        return run_multinf(case)
    th0 = case["theory"]
    mode = case["mode"]
    pto = 2 if mode == "beta0" else (1 if mode == "meta" else 0)
    th = cards.theory(PTO=pto, RenScaleVar=(mode == "beta0"), FactScaleVar=False, **th0)
    proc = case["process"]
    proj = "neutrino" if proc == "CC" else "electron"
    xg = cards.grid(5, 4, x_min=1e-3)
    x = xg[3]
    pts = [dict(x=x, Q2=p["Q2"]) for p in case["points"]]
    ob = cards.observables({"F2_light": pts, **({"F2_total": pts} if mode == "beta0" else {})}, xgrid=xg, deg=2, prDIS=proc, ProjectileDIS=proj)
    log, undo = _probe()
    try:
        out = run.run(th, ob)
    finally:
        undo()
    viol, nontrivial, classes = [], set(), set()
    compared = 0
    sample = None
    probes = dict(combiner_init=len(log))
    for p, res in zip(case["points"], out["F2_light"]):
        ref = nfref.nf_light(th, p["Q2"])
        cell = f"{th['FNS']}|NfFF{th['NfFF']}|{p['cls']}|nf{ref}"
        classes.add(p["cls"])
        # (1) probe: every Combiner built for this Q2 used the reference nf
        seen = sorted({nf for q2, nf in log if q2 == p["Q2"]})
        if seen:
            compared += 1
            nontrivial.add(cell + "|probe")
            if seen != [ref]:
                viol.append(dict(sig=f"nf-probe|{th['FNS']}|{p['cls']}", what=f"Combiner used nf={seen} at Q2={p['Q2']!r} ({p['cls']} wall), reference nf={ref} for {th['FNS']} NfFF={th['NfFF']} walls={[ (th['m'+f]*th['k'+f+'Thr'])**2 for f in 'cbt']}",
                                 detail=dict(point=p, seen=seen, ref=ref)))  # fmt: skip
        # (2) public: active quark rows at LO
        lo = res.orders[(0, 0, 0, 0)][0]
        active = sorted({abs(pid) for i, pid in enumerate(cards.PIDS) if pid not in (21, 22) and np.any(lo[i] != 0)})
        if proc != "CC":
            compared += 1
            nontrivial.add(cell + "|rows")
            if active != list(range(1, ref + 1)):
                viol.append(dict(sig=f"nf-rows|{th['FNS']}|{p['cls']}", what=f"F2_light LO has active quark rows {active} at Q2={p['Q2']!r} ({p['cls']}), reference nf={ref} ({th['FNS']} NfFF={th['NfFF']})",
                                 detail=dict(point=p, active=active, ref=ref)))  # fmt: skip
        if sample is None:
            sample = dict(Q2=p["Q2"], cls=p["cls"], reference_nf=ref, probe_nf=seen, active_rows=active)
        # (3) beta0 from the renormalisation-scale term
        if mode == "beta0":
            t1 = res.orders[(1, 0, 0, 0)][0]
            t2 = res.orders.get((2, 0, 1, 0))
            if t2 is None:
                viol.append(dict(sig="beta0-key-missing", what=f"no (2,0,1,0) key with RenScaleVar on; keys={list(res.orders)}"))
                continue
            i, j = np.unravel_index(np.argmax(np.abs(t1)), t1.shape)
            b0 = -t2[0][i, j] / t1[i, j]
            nf_eff = (11.0 - b0) * 1.5
            compared += 1
            classes.add("beta0")
            nontrivial.add(cell + "|beta0")
            if abs(nf_eff - ref) > 1e-6:
                viol.append(dict(sig=f"nf-beta0|{th['FNS']}", what=f"beta0 in the muR term corresponds to nf={nf_eff:.6f} at Q2={p['Q2']!r}, reference nf={ref}",
                                 detail=dict(point=p, beta0=float(b0), nf_eff=float(nf_eff), ref=ref)))  # fmt: skip
            # and the whole tensor is -beta0(ref) * T1
            m, d = run.cmp(t2[0], -nfref.beta0(ref) * t1, run.absmax(t1) * nfref.beta0(ref), 1e-12)
            compared += t1.size
            if m > 1:
                viol.append(dict(sig=f"nf-beta0-tensor|{th['FNS']}", what=f"(2,0,1,0) != -beta0(nf={ref})*(1,0,0,0): max dev {d:.3g}"))
            # the same identity row by row on <kind>_total: massive-quark (intrinsic) rows are governed by the scheme's nf as well
            rt = out["F2_total"][case["points"].index(p)]
            a1, a2 = np.asarray(rt.orders[(1, 0, 0, 0)][0]), np.asarray(rt.orders[(2, 0, 1, 0)][0])
            for ir, pid in enumerate(cards.PIDS):
                if run.absmax(a1[ir]) == 0:
                    continue
                mr, dr = run.cmp(a2[ir], -nfref.beta0(ref) * a1[ir], run.absmax(a1[ir]) * nfref.beta0(ref), 1e-11)
                compared += a1[ir].size
                if mr > 1:
                    j_ = int(np.argmax(np.abs(a1[ir])))
                    viol.append(dict(sig=f"nf-beta0-row|{th['FNS']}|{'heavy' if abs(pid) > ref and pid != 21 else 'light'}", what=f"F2_total {th['FNS']} NfFF={th['NfFF']} Q2={p['Q2']:.5g}: row pid={pid}: (2,0,1,0)/(1,0,0,0) = {-a2[ir][j_]/a1[ir][j_]:.6f}, beta0(nf={ref}) = {nfref.beta0(ref):.6f}"))
                    break
    if mode == "meta":
        # second ZM card with other masses / ratios but the same count at every requested Q2
        th2 = dict(th)
        th2.update(case["theory2"])
        walls2 = [(th2["m" + f] * th2["k" + f + "Thr"]) for f in "cbt"]
        ok = walls2[0] < walls2[1] < walls2[2]
        same = ok and all(nfref.nf_light(th, p["Q2"]) == nfref.nf_light(th2, p["Q2"]) for p in case["points"])
        if same:
            out2 = run.run(th2, ob)
            for p, a, b in zip(case["points"], out["F2_light"], out2["F2_light"]):
                eq, why = run.same_bits(a, b)
                compared += 1
                classes.add("meta")
                nontrivial.add(f"meta|nf{nfref.nf_light(th, p['Q2'])}|{p['cls']}")
                if not eq:
                    viol.append(dict(sig="zm-threshold-dependence", what=f"ZM-VFNS operators differ between two threshold settings with the same nf at Q2={p['Q2']!r}: {why}",
                                     detail=dict(theory2={k: th2[k] for k in ('mc','mb','mt','kcThr','kbThr','ktThr')})))  # fmt: skip
    return dict(violations=viol, compared=compared, nontrivial=sorted(nontrivial), classes=sorted(classes), probes=probes, sample=sample)
