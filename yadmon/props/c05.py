"""C05 - scale-variation terms obey the RGEs: kernel validity, memo-state monitor, RG algebra oracle, switch semantics."""
import numpy as np

from .. import cards, nfref, quad, run

PROP = "C05"
LEVEL = "exploration"
RULE = (
    "(moments) every splitting / convolved-splitting RSL built by the code has Mellin moments (own quadrature, random real N) equal to "
    "ekore's anomalous dimensions (-gamma, products for convolved labels), nf 3..6; (memo) after a run the live memo "
    "sv_manager.operators[(label,nf)] is sampled and compared with yadmon.quad's own (P (x) p_l)(x_k); (algebra) for each ESF every key "
    "(k,0,i,j) is recomputed in flavour space from the recorded kernels' central vectors: T(1,1)=C0 P0, T(2,1)=C0 P1 + C1 (P0-b0), "
    "T(2,2)=1/2 C0 P0 (P0-b0), renormalisation through a(muF)=a(muR)[1+b0 L a+(b1 L+b0^2 L^2)a^2], L=lnF-lnR expanded binomially, "
    "hand-written flavour decomposition, closed-form b0,b1, no lnF terms for intrinsic kernels; at PTO 3 only keys with lnR>=1 or j=0 are "
    "decided; (switch) the same card with the four (RenScaleVar,FactScaleVar) settings: switched-off logs exactly zero, all other keys "
    "bit-identical. Distinct = (monitor, kind, process, scheme, PTO, nf); non-trivial = a non-zero SV tensor (or moment / memo entry) was compared."
    " In the regrid mode the same card is served first on a twin grid, on the same nodes in the other interpolation mode and with another degree."
)
ASSUMPTIONS = ["ekore anomalous dimensions are trusted for (moments)", "the algebra oracle takes the matrices from the live memo (their content is judged by (memo) and (moments))"]


def budget(tier):
    return 280 if tier == "quick" else 1700


def floor(tier):
    return dict(min_conclusive=30 if tier == "quick" else 500, min_nontrivial=30 if tier == "quick" else 200,
                classes=["moments", "memo", "algebra", "switch", "intrinsic", "pto3", "regrid"], probes=["collect_elems", "memo_labels"], min_compared=2000)  # fmt: skip


def cases(tier, rng):
    out = []
    for nf in (3, 4, 5, 6):
        out.append(dict(id=f"c05-m{nf}", mode="moments", nf=nf, Ns=[2.0, 3.0] + [float(rng.uniform(2.0, 14.0)) for _ in range(4 if tier == "quick" else 18)]))
    n = 44 if tier == "quick" else 4000
    for i in range(n):
        mode = "switch" if i % 4 == 3 else "algebra"
        ptos = (1, 2, 2, 3) if tier == "quick" else (1, 2, 2, 2, 3)
        cfg = cards.rand_config(rng, ptos=ptos)
        th = cfg["theory"]
        if th["FNS"] in ("FFNS", "FONLL-FFNS") and th["PTO"] == 3 and tier == "quick":
            th["PTO"] = 2
        if i % 7 == 0:  # make sure intrinsic kernels take part regularly
            th.update(FNS=cards.pick(rng, ["FFNS", "FFN0", "FONLL-FFNS"]), NfFF=3, PTO=int(cards.pick(rng, [1, 2])))
        th.update(RenScaleVar=True, FactScaleVar=True)
        g = cards.rand_grid(rng)
        kind = cards.pick(rng, cfg["kinds"])
        heavy = cards.pick(rng, ["total", "total", "light", "charm", "bottom"]) if i % 7 else cards.pick(rng, ["charm", "bottom", "total", "top"])
        if i % 7 == 0:
            th["PTO"] = 2  # intrinsic rows of the 2nd and 3rd massive quark at O(a_s^2): their muR terms must use the scheme's nf too
        pts = cards.rand_points(rng, g["xgrid"], n=2, q2lo=3.0, q2hi=2e4)
        if i % 6 == 1:
            # one runner-wide scale-variation manager serving several nf: points in the nf=3, 4, 5 regions, in random order
            th.update(FNS="ZM-VFNS", PTO=2)
            pts = cards.rand_points(rng, g["xgrid"], n=3, q2lo=3.0, q2hi=2e4)
            for p_, q2 in zip(pts, rng.permutation([0.75 * th["mc"] ** 2, 0.5 * (th["mc"] ** 2 + th["mb"] ** 2), 4.0 * th["mb"] ** 2])):
                p_["Q2"] = float(q2)
        out.append(dict(id=f"c05-{i}", mode=mode, kind=kind, heavy=heavy, grid=g, points=pts, memo_samples=[[int(rng.integers(0, 64)), int(rng.integers(0, 64))] for _ in range(10)], regrid=bool(i % 4 == 2), **cfg))
    return out


def moments_case(case):
    run.yad()
    from ekore.anomalous_dimensions.unpolarized.space_like import as1, as2
    from ekore.harmonics import cache as hc
    from yadism.coefficient_functions import splitting_functions as split

    nf = case["nf"]
    viol, nontrivial = [], set()
    compared, margin, sample = 0, 0.0, None

    def gam(lab, N):
        c = hc.reset()
        g = dict(
            qq0=as1.gamma_ns(N, c), qg0=as1.gamma_qg(N, nf), gq0=as1.gamma_gq(N), gg0=as1.gamma_gg(N, c, nf),
            nsp1=as2.gamma_nsp(N, nf, c), nsm1=as2.gamma_nsm(N, nf, c), ps1=as2.gamma_ps(N, nf), qg1=as2.gamma_qg(N, nf, c),
        )  # fmt: skip
        table = {
            "P_qq_0": -g["qq0"], "P_qg_0": -g["qg0"], "P_gq_0": -g["gq0"], "P_gg_0": -g["gg0"],
            "P_nsp_1": -g["nsp1"], "P_nsm_1": -g["nsm1"], "P_qq_1": -(g["nsp1"] + g["ps1"]), "P_qg_1": -g["qg1"],
            "P_qq_0^2": g["qq0"] ** 2, "P_qg_0P_gq_0": g["qg0"] * g["gq0"], "P_qq_0P_qg_0": g["qq0"] * g["qg0"], "P_qg_0P_gg_0": g["qg0"] * g["gg0"],
        }  # fmt: skip
        return complex(table[lab]).real

    labels = {}
    for d in split.raw_labels:
        labels.update(d)
    for lab, fnc in labels.items():
        rsl = fnc(nf)
        for N in case["Ns"]:
            try:
                exp = gam(lab, N)
            except KeyError:
                viol.append(dict(sig=f"unknown-label|{lab}", what=f"splitting label {lab} has no reference anomalous dimension"))
                break
            m1 = quad.moment(rsl, N)
            m2 = quad.moment(rsl, N, 0.4) if rsl.sing is not None else m1
            for m, how in ((m1, "split at 0"), (m2, "split at x=0.4")):
                # NLO anomalous dimensions: ekore continues the harmonic sums with ~2e-6 accurate approximations
                # (measured: yadism reproduces the exact gamma_ns+(2) to 1e-12, ekore is 1.7e-6 off); LO ones are exact
                mg, d = run.cmp(m, exp, max(abs(exp), 1.0), 1e-6 if lab.endswith("_1") else 1e-9)
                compared += 1
                nontrivial.add(f"moments|{lab}|nf{nf}")
                if mg > 1:
                    viol.append(dict(sig=f"splitting-moment|{lab}", what=f"{lab} nf={nf}: Mellin moment N={N:.6g} ({how}) = {m:.10g}, ekore gives {exp:.10g}"))
                else:
                    margin = max(margin, mg)
                    if sample is None:
                        sample = dict(label=lab, nf=nf, N=N, moment=m, ekore=exp)
    return dict(violations=viol, compared=compared, nontrivial=sorted(nontrivial), classes=["moments"], margin=margin, sample=sample, probes=dict(memo_labels=len(labels), collect_elems=1))


def binom(n, k):
    from math import comb

    return comb(n, k)


def run_case(case):
    if case["mode"] == "moments":
        return moments_case(case)
    yad = run.yad()
    from yadism import coefficient_functions as cf
    from yadism.esf import conv

    th = cards.theory(**case["theory"])
    g = case["grid"]
    name = f"{case['kind']}_{case['heavy']}"
    pts = [dict(x=p["x"], Q2=p["Q2"]) for p in case["points"]]
    ob = cards.observables({name: pts}, xgrid=g["xgrid"], deg=g["deg"], is_log=g["is_log"], **case["obs"])
    pto = th["PTODIS"]
    viol, nontrivial, classes = [], set(), set()
    compared, margin, sample = 0, 0.0, None
    probes = dict(collect_elems=0, memo_labels=0)
    cellb = f"{case['kind']}|{case['obs']['prDIS']}|{th['FNS']}|pto{pto}"

    if case["mode"] == "switch":
        outs = {}
        for r_, f_ in ((True, True), (True, False), (False, True), (False, False)):
            t = dict(th, RenScaleVar=r_, FactScaleVar=f_)
            outs[(r_, f_)] = run.run(t, ob)
        full = outs[(True, True)]
        for (r_, f_), o in outs.items():
            for i, p in enumerate(pts):
                a, b = full[name][i], o[name][i]
                if list(a.orders) != list(b.orders):
                    viol.append(dict(sig="switch-keys", what=f"order keys differ between switch settings: {list(b.orders)}"))
                    continue
                for key in a.orders:
                    off = (key[2] > 0 and not r_) or (key[3] > 0 and not f_)
                    vb = np.asarray(b.orders[key][0])
                    compared += vb.size
                    if off:
                        if np.any(vb != 0):
                            viol.append(dict(sig=f"switch-off-nonzero|{'R' if not r_ else ''}{'F' if not f_ else ''}", what=f"{name} RenScaleVar={r_} FactScaleVar={f_}: key {run.key(key)} should vanish, max |entry| {run.absmax(vb):.3g}"))
                    else:
                        if not np.array_equal(vb, a.orders[key][0]):
                            viol.append(dict(sig=f"switch-changes-other|{'R' if not r_ else ''}{'F' if not f_ else ''}", what=f"{name} RenScaleVar={r_} FactScaleVar={f_}: key {run.key(key)} differs from the full run by {run.absmax(vb - a.orders[key][0]):.3g} (scale {run.absmax(vb):.3g})"))
                        elif run.absmax(vb) > 0 and (key[2] or key[3]):
                            nontrivial.add(f"switch|{cellb}")
        classes.add("switch")
        probes = dict(collect_elems=1, memo_labels=1)
        sample = dict(obs=name, settings=4, keys=[list(k) for k in full[name][0].orders][:8])
        return dict(violations=viol, compared=compared, nontrivial=sorted(nontrivial), classes=sorted(classes), margin=0.0, probes=probes, sample=sample)

    # ---- algebra + memo
    rec = {}
    orig = cf.Combiner.collect_elems

    def spy(self):
        elems = orig(self)
        rec[(self.esf.x, self.esf.Q2)] = (self.nf, list(elems))
        return elems

    if case.get("regrid"):
        # the same card first on a grid with the same size, end points, degree and log mode but other interior nodes: a process-wide
        # memo of splitting operators that cannot tell the two grids apart would now feed stale operators to the judged run
        classes.add("regrid")
        try:
            yad.Runner(th, cards.observables({name: [dict(x=0.5, Q2=pts[0]["Q2"])]}, xgrid=cards.warp_grid(g["xgrid"]), deg=g["deg"], is_log=g["is_log"], **case["obs"])).get_result()
            # ... and on the very same nodes in the other interpolation mode and with another degree
            yad.Runner(th, cards.observables({name: [dict(x=0.5, Q2=pts[0]["Q2"])]}, xgrid=g["xgrid"], deg=g["deg"], is_log=not g["is_log"], **case["obs"])).get_result()
            if len(g["xgrid"]) > g["deg"] + 2:
                yad.Runner(th, cards.observables({name: [dict(x=0.5, Q2=pts[0]["Q2"])]}, xgrid=g["xgrid"], deg=g["deg"] + 1 if g["deg"] < 4 else g["deg"] - 1, is_log=g["is_log"], **case["obs"])).get_result()
        except ValueError:
            pass
    cf.Combiner.collect_elems = spy
    try:
        runner = yad.Runner(th, ob)
        out = runner.get_result()
    finally:
        cf.Combiner.collect_elems = orig
    probes["collect_elems"] = len(rec)
    if not rec:
        return dict(status="inconclusive", reason="probe-missing:Combiner.collect_elems", probes=probes)
    interp = runner.configs.managers["interpolator"]
    sv = runner.configs.managers["sv_manager"]
    n = len(interp.xgrid.raw)
    nodes = list(interp.xgrid.raw)
    I = np.eye(n)
    probes["memo_labels"] = len(sv.operators)
    # (memo) sample entries of the live memo against independent quadrature
    from yadism.coefficient_functions import splitting_functions as split

    labels = {}
    for d in split.raw_labels:
        labels.update(d)
    bfs = list(interp)
    for (lab, nf_), mat in sorted(sv.operators.items()):
        rsl = labels[lab](nf_)
        for a_, b_ in case["memo_samples"][:4]:
            l, k = a_ % n, b_ % n
            if k == n - 1:
                continue
            if bfs[l].is_below_x(nodes[k]):
                v, s = 0.0, 0.0  # support of p_l entirely below x_k
            else:
                v, s, _ = quad.conv(rsl, nodes[k], lambda u, bf=bfs[l]: bf.evaluate_x(u) if u <= 1.0 else 0.0, breaks_u=nodes)
            # (scipy's quad accepts a panel on QUADPACK's heuristic error estimate, which is optimistic next to the ln(1-z) end point of
            # the two-loop and product kernels: measured 1.4e-6 off with 7e-9 reported on P_qq_0 (x) P_qg_0; LO kernels stay at 1e-6)
            mg, d = run.cmp(mat[l, k], v, max(s, 1e-3 * run.absmax(mat)), 1e-6 if lab.count("_0") == 1 and lab.count("P_") == 1 else 1e-5)
            compared += 1
            classes.add("memo")
            if s > 0:
                nontrivial.add(f"memo|{lab}|nf{nf_}")
            if mg > 1:
                viol.append(dict(sig=f"memo-entry|{lab}", what=f"sv_manager.operators[({lab},{nf_})][{l},{k}] = {mat[l,k]:.10g}; independent (P (x) p_{l})(x_{k}) = {v:.10g}"))
            else:
                margin = max(margin, mg)
    PID = cards.PIDS
    ix = {p: i for i, p in enumerate(PID)}
    for i, p in enumerate(case["points"]):
        res = out[name][i]
        nf, elems = rec[(p["x"], p["Q2"])]
        ref_nf = nfref.nf_light(th, p["Q2"])
        b0, b1 = nfref.beta0(nf), nfref.beta1(nf)
        M = {l: sv.operators[(l, nf_)] for (l, nf_) in sv.operators if nf_ == nf}
        for d_ in split.raw_labels[:pto]:
            for l, fnc in d_.items():
                if l not in M:
                    # the run produced SV terms for this nf without ever building the splitting operator for it (a memo keyed
                    # without nf would do that): build it with the code's own convolution so that the algebra can still be judged
                    M[l] = conv.convolve_operator(fnc(nf), interp)[0]
                    probes["memo_rebuilt"] = probes.get("memo_rebuilt", 0) + 1
        act = [q for q in range(1, nf + 1)] + [-q for q in range(1, nf + 1)]
        exp, scale = {}, {}

        def add(key, T):
            exp[key] = exp.get(key, 0) + T
            scale[key] = scale.get(key, 0) + np.abs(T)

        has_intrinsic = False
        for k in elems:
            w = np.array([k.partons.get(pid, 0.0) for pid in PID])
            xi = k.coeff.convolution_point()
            v = {}
            for o in range(pto + 1):
                if not k.has_order(o):
                    continue
                rsl = k.coeff[o]()
                if rsl is None:
                    continue
                v[o] = xi * conv.convolve_vector(rsl, interp, xi)[0]
            wq = {q: w[ix[q]] for q in act}
            wg = w[ix[21]]
            sumq = sum(wq.values())

            def act0(vo, sub, gluonic=True):  # C (x) (P0 - sub*b0); the LO coefficient has no gluon channel
                T = np.zeros((14, n))
                Pqq = M["P_qq_0"] - sub * b0 * I
                for q in act:
                    T[ix[q]] += wq[q] * (Pqq @ vo)
                T[ix[21]] += sumq / (2 * nf) * (M["P_qg_0"] @ vo)
                if wg != 0 and gluonic:
                    for q in act:
                        T[ix[q]] += wg * (M["P_gq_0"] @ vo)
                    T[ix[21]] += wg * ((M["P_gg_0"] - sub * b0 * I) @ vo)
                return T

            def act1(vo):  # C0 (x) P1 (quark-initiated only: C0 has no gluon)
                T = np.zeros((14, n))
                Pp, Pm, Pqq, Pqg = M["P_nsp_1"], M["P_nsm_1"], M["P_qq_1"], M["P_qg_1"]
                Pps = Pqq - Pp
                for q in range(1, nf + 1):
                    plus, minus = (wq[q] + wq[-q]) / 2, (wq[q] - wq[-q]) / 2
                    T[ix[q]] += plus * (Pp @ vo) + minus * (Pm @ vo)
                    T[ix[-q]] += plus * (Pp @ vo) - minus * (Pm @ vo)
                for q in act:
                    T[ix[q]] += sumq / (2 * nf) * (Pps @ vo)
                T[ix[21]] += sumq / (2 * nf) * (Pqg @ vo)
                return T

            intrinsic = k.channel == "intrinsic"
            has_intrinsic = has_intrinsic or intrinsic
            src = {(o, 0): np.outer(w, v[o]) for o in v}  # (order, lnF power) -> tensor
            if not intrinsic:
                if 0 in v:
                    src[(1, 1)] = act0(v[0], 0, gluonic=False)
                if pto >= 2:
                    T21 = np.zeros((14, n))
                    if 0 in v:
                        T21 += act1(v[0])
                    if 1 in v:
                        T21 += act0(v[1], 1)
                    src[(2, 1)] = T21
                    if 0 in v:
                        T = np.zeros((14, n))
                        vo = v[0]
                        for q in act:
                            T[ix[q]] += wq[q] * 0.5 * ((M["P_qq_0^2"] - b0 * M["P_qq_0"]) @ vo)
                            T[ix[q]] += sumq / (2 * nf) * 0.5 * (M["P_qg_0P_gq_0"] @ vo)
                        T[ix[21]] += sumq / (2 * nf) * 0.5 * ((M["P_qq_0P_qg_0"] + M["P_qg_0P_gg_0"] - b0 * M["P_qg_0"]) @ vo)
                        src[(2, 2)] = T
            for (o, j), T in src.items():
                if j > 0:
                    add((o, 0, 0, j), T)
            # renormalisation: a(muF)^s -> a(muR)^t with coefficient c * L^npow, L = lnF - lnR
            ren = {(2, 1): [(1, b0)], (3, 1): [(1, b1), (2, b0 * b0)], (3, 2): [(1, 2 * b0)]}
            for (t, s), terms in ren.items():
                if t > pto:
                    continue
                for (o, j), T in src.items():
                    if o != s:
                        continue
                    for npow, c in terms:
                        for i_ in range(npow + 1):
                            jj = npow - i_ + j
                            if intrinsic and jj > 0:
                                continue
                            add((t, 0, i_, jj), c * binom(npow, i_) * (-1) ** i_ * T)
        if has_intrinsic:
            classes.add("intrinsic")
        if pto == 3:
            classes.add("pto3")
        compared += 1
        if nf != ref_nf:
            viol.append(dict(sig="sv-nf", what=f"scale variations computed with nf={nf}, reference nf={ref_nf} at Q2={p['Q2']}"))
        for key, (val, _err) in res.orders.items():
            if key[2] == 0 and key[3] == 0:
                continue
            if key[0] == 3 and key[2] == 0 and key[3] > 0:
                continue  # N3LO factorisation-scale terms: outside code and property
            val = np.asarray(val)
            e = exp.get(key, np.zeros_like(val)) + np.zeros_like(val)
            s = scale.get(key, np.zeros_like(val)) + np.zeros_like(val)
            smax = float(s.max())
            mg, d = run.cmp(val, e, smax, 1e-11, 1e-300)
            compared += val.size
            classes.add("algebra")
            if smax > 0:
                nontrivial.add(f"algebra|{cellb}|nf{nf}|{run.key(key)}")
            if mg > 1:
                bad = np.unravel_index(np.argmax(np.abs(val - e)), val.shape)
                viol.append(dict(sig=f"rg-algebra|{run.key(key)}|{'intr' if has_intrinsic else 'std'}", what=f"{name} {case['obs']['prDIS']} {th['FNS']} PTO={pto} nf={nf} x={p['x']:.6g} Q2={p['Q2']:.6g}: key {run.key(key)} row pid={PID[bad[0]]} node {int(bad[1])} = {val[bad]:.12g}, RG algebra gives {e[bad]:.12g} (max dev/scale {d/max(smax,1e-300):.3g})",
                                 detail=dict(point=p, key=list(key), observed=float(val[bad]), expected=float(e[bad]))))  # fmt: skip
            else:
                margin = max(margin, mg)
                if sample is None and smax > 0:
                    bi = np.unravel_index(np.argmax(np.abs(e)), e.shape)
                    sample = dict(obs=name, nf=nf, key=list(key), pid=PID[bi[0]], node=int(bi[1]), observed=float(val[bi]), rg_algebra=float(e[bi]))
        # keys the algebra predicts but the output lacks
        for key in exp:
            if key[0] <= pto and key not in res.orders and np.any(exp[key] != 0):
                viol.append(dict(sig=f"rg-key-missing|{run.key(key)}", what=f"{name}: output has no key {run.key(key)} although the RG algebra gives a non-zero tensor"))
    return dict(violations=viol, compared=compared, nontrivial=sorted(nontrivial), classes=sorted(classes), margin=margin, probes=probes, sample=sample)
