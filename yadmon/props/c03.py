"""C03 - every coefficient/splitting kernel is one well-defined distribution: invariant monitor on real RSL objects."""
import importlib
import itertools

import numpy as np

from .. import cards, quad, run

PROP = "C03"
LEVEL = "exploration"
RULE = (
    "a probe on RSL.__init__ collects every RSL the real code constructs while the workload (a) instantiates every "
    "PartonicChannel subclass of the light/heavy/asy/intrinsic families for every kind/process with the real constructor "
    "signatures (nf 3..6, Q2/m2 from 0.03 (thorough: 0.01) to 1e6, orders 0..3), (b) collects the kernels of real runner configurations through "
    "Combiner.collect_elems, (c) builds every splitting / convolved-splitting label for nf 3..6. For each RSL: all parts are "
    "evaluated on an x sample (log and linear spacing plus 1-10^-k) and must return finite real scalars; loc(x)-loc(x0) must equal "
    "-int_{x0}^{x} sing (own quadrature, rtol 1e-4 on int|sing|). Distinct = (family, module, class, order, nf); "
    "non-trivial = the RSL has a singular or local part (identity checked) or a regular part (finiteness checked on >= 10 points)."
    " Every mass ratio is driven in two representations (Q2 varied at unit mass; the mass varied at a common Q2), so that state keyed by Q2 or by the mass alone shows."
    " Each part is also asked three times at its first sample points after the whole sample was evaluated: the answers must be identical (a part is a function of z)."
)
ASSUMPTIONS = ["scipy.quad trusted", "Vogt-type parametrisations are accurate to ~1e-6 relative: rtol 1e-4 (calibrated: noise <= 2.1e-6, defects >= 5e-2)",
               "threshold-limited heavy kernels are evaluated on all of (0,1) (they return 0 beyond the partonic threshold)"]  # fmt: skip
RTOL = 1e-4
X0 = 1e-7
XS_ID = [1e-4, 1e-3, 0.01, 0.05, 0.1, 0.2, 0.3, 0.5, 0.7, 0.9, 0.99, 0.999]
XS_FIN = sorted(set(list(np.geomspace(1e-6, 0.5, 9)) + list(np.linspace(0.05, 0.95, 10)) + [1 - 1e-3, 1 - 1e-5, 1 - 1e-7]))
FAMILIES = ["light", "heavy", "asy", "intrinsic"]
KINDS = ["f2", "fl", "f3", "g1", "gl", "g4"]


def budget(tier):
    return 280 if tier == "quick" else 1700


def floor(tier):
    return dict(min_conclusive=40 if tier == "quick" else 200, min_nontrivial=150 if tier == "quick" else 400,
                classes=FAMILIES + ["splitting", "runner"], probes=["rsl_init", "identity_checks", "finiteness_evals"], min_compared=3000)  # fmt: skip


def cases(tier, rng):
    out = []
    nfs = [3, 4, 5, 6]
    # (ratios below 1 are ordinary kinematics for the heavier quarks: bottom production at Q2 of a few GeV2)
    ratios = [0.03, 0.3, 1.1, 5.0, 200.0, 1e5] if tier == "quick" else [0.01, 0.03, 0.09, 0.11, 0.3, 1.1, 2.0, 5.0, 30.0, 200.0, 3e3, 1e5, 1e6]
    k = 0
    for fam, kind, proc in itertools.product(FAMILIES, KINDS, ["nc", "cc"]):
        top = 7 if fam == "light" else 6  # heavy/asy/intrinsic: nf light flavours plus the heavy quark itself, so nf <= 5
        for nf in [n_ for n_ in nfs if n_ < top] if tier == "thorough" else [int(rng.integers(3, top)), int(rng.integers(3, top))]:
            rs = ratios if fam != "light" else [float(cards.pick(rng, ratios))]
            out.append(dict(id=f"c03-m{k}", mode="module", family=fam, kind=kind, proc=proc, nf=int(nf), ratios=rs, x=float(cards.logu(rng, 1e-3, 0.3)),
                            variation=int(cards.pick(rng, [-1, 0, 1]))))  # fmt: skip
            k += 1
    for nf in nfs:
        out.append(dict(id=f"c03-s{nf}", mode="splitting", nf=nf))
    n = 24 if tier == "quick" else 6000
    for i in range(n):
        cfg = cards.rand_config(rng, ptos=(3,), sv=False)
        out.append(dict(id=f"c03-r{i}", mode="runner", kind=cards.pick(rng, cfg["kinds"]), heavy=cards.pick(rng, ["total", "light", "charm", "bottom"]),
                        point=dict(x=cards.logu(rng, 1e-3, 0.5), Q2=cards.logu(rng, 3, 1e5)), **cfg))  # fmt: skip
    if tier == "thorough":
        for c in out:
            c["xs_extra"] = sorted(set([float(v) for v in rng.uniform(1e-3, 0.999, 5)] + [float(1 - 10 ** rng.uniform(-7, -2)), float(10 ** rng.uniform(-6, -3))]))
    return out


class FakeESF:
    def __init__(self, x, Q2):
        self.x, self.Q2 = x, Q2


def fname(f):
    if f is None:
        return "-"
    return getattr(f, "__qualname__", None) or getattr(getattr(f, "py_func", None), "__qualname__", None) or type(f).__name__


def scalar_ok(v):
    if isinstance(v, (bool, np.bool_)):
        return False
    if isinstance(v, (int, float, np.floating, np.integer)):
        return bool(np.isfinite(v))
    if isinstance(v, np.ndarray) and v.ndim == 0 and v.dtype.kind == "f":
        return bool(np.isfinite(v))
    return False


def region(z, ratio):
    zc = "z<1e-4" if z < 1e-4 else ("z<1e-2" if z < 1e-2 else "z>=1e-2")
    if ratio is None:
        return zc
    return zc + ("&xi>=1e4" if ratio >= 1e4 else "&xi<1e4")


def is_explicit_rejection(e):
    """A deliberate 'raise' with a message inside a dependency / yadism (not an arithmetic or lookup failure)."""
    import linecache
    import traceback

    tb = traceback.extract_tb(e.__traceback__)
    if not tb:
        return False
    fr = tb[-1]
    line = (fr.line or linecache.getline(fr.filename, fr.lineno)).strip()
    return line.startswith("raise ") and len(str(e)) > 8


XS_EXTRA = []  # per-case random x (thorough tier), set by run_case
XS_POINT = []  # the convolution point of the channel that owns the RSL under test (state kept there must not leak between kernels)


def check_rsl(rsl, label, viol, counters, ratio=None):
    """Returns (identity_checked, margin)."""
    a = rsl.args
    margin = 0.0
    # finiteness / type: evaluate the whole sample, report once per part with the kinematic region in the signature
    for part, xs in (("reg", XS_FIN + XS_EXTRA), ("sing", XS_FIN + XS_EXTRA), ("loc", XS_FIN + XS_EXTRA)):
        f = getattr(rsl, part)
        if f is None:
            continue
        bad, rejected, first = [], [], None
        for x in xs:
            try:
                v = f(float(x), a[part])
            except (ValueError, NotImplementedError) as e:
                if is_explicit_rejection(e):
                    rejected.append(x)  # the dependency states that this region is unsupported: outside the admissible domain
                    counters["explicit_domain_rejections"] += 1
                    continue
                bad.append(x)
                first = first or f"raised {type(e).__name__}: {str(e)[:100]}"
                continue
            except Exception as e:
                bad.append(x)
                first = first or f"raised {type(e).__name__}: {str(e)[:100]}"
                continue
            counters["finiteness_evals"] += 1
            if not scalar_ok(v):
                bad.append(x)
                first = first or f"= {v!r}"
        # a part of a kernel is a function of z: asked again at the first sample points (after the whole sample has been evaluated) it
        # must give the very same numbers - a closure that edits captured state on every call does not
        if not bad and not rejected:
            try:
                again = [(float(x), f(float(x), a[part]), f(float(x), a[part])) for x in xs[:3]]
                first_pass = [f(float(x), a[part]) for x in xs[:3]]
            except Exception:  # noqa: BLE001
                again, first_pass = [], []
            counters["determinism_evals"] = counters.get("determinism_evals", 0) + 2 * len(again)
            for (x_, v1, v2), v0 in zip(again, first_pass):
                if scalar_ok(v1) and scalar_ok(v2) and scalar_ok(v0) and not (float(v1) == float(v2) == float(v0)):
                    viol.append(dict(sig=f"not-a-function|{label}|{part}", what=f"{label}: {part}({x_:.6g}) returned {float(v1)!r}, {float(v2)!r} and {float(v0)!r} on consecutive calls with the same arguments (Q2/m2={ratio}): the part is not a function of z"))
                    break
        if bad:
            kind_ = "nonfinite" if "raised" not in (first or "") else "part-raises"
            viol.append(dict(sig=f"{kind_}|{label}|{part}|{region(max(bad), ratio)}", what=f"{label}: {part}(z) {first} at z={bad[0]:.6g}; {len(bad)} of {len(xs)} sample points fail, largest failing z={max(bad):.6g} (Q2/m2={ratio}, args {a[part].tolist()})"))
    if rsl.loc is None and rsl.sing is None:
        return False, margin
    if rsl.sing is not None and rsl.loc is None:
        viol.append(dict(sig=f"sing-without-loc|{label}", what=f"{label}: singular part without local part: the distribution depends on the convolution point"))
        return True, margin
    try:
        l0 = rsl.loc(X0, a["loc"])
        for x in sorted(XS_ID + XS_EXTRA + XS_POINT):
            lx = rsl.loc(x, a["loc"])
            integ = quad.int_sing(rsl, X0, x)[0] if rsl.sing is not None else 0.0
            if not (np.isfinite(lx) and np.isfinite(integ) and np.isfinite(l0)):
                return True, margin  # reported by the finiteness part
            d = abs((lx - l0) + integ)
            # cancellation-free scale: int |sing| (loc(x)-loc(x0) may cross zero; measured on the pinned tree: the 7-digit
            # rounding of Vogt's coefficients gives up to 4e-5 relative to max(|dloc|,|int|) at such a crossing, 2e-6 of this scale)
            sc = max(abs(lx - l0), abs(integ), quad.int_sing(rsl, X0, x, absolute=True)[0] if rsl.sing is not None else 0.0)
            tol = RTOL * sc + 1e-10 * max(abs(lx), 1.0)
            counters["identity_checks"] += 1
            m = d / tol
            if m > 1:
                viol.append(dict(sig=f"loc-vs-sing|{label}", what=f"{label}: loc({x})-loc({X0}) = {lx-l0:.10g} but -int sing = {-integ:.10g} (rel. mismatch {d/max(sc,1e-300):.3g}; args loc {a['loc'].tolist()})",
                                 detail=dict(x=x, dloc=float(lx - l0), minus_int_sing=float(-integ))))  # fmt: skip
                return True, margin
            margin = max(margin, m)
    except (ValueError, NotImplementedError) as e:
        if not is_explicit_rejection(e):
            viol.append(dict(sig=f"part-raises|{label}|identity|{type(e).__name__}", what=f"{label}: evaluating the plus-prescription identity raised {type(e).__name__}: {str(e)[:160]}"))
    except Exception as e:
        viol.append(dict(sig=f"part-raises|{label}|identity|{type(e).__name__}", what=f"{label}: evaluating the plus-prescription identity raised {type(e).__name__}: {str(e)[:160]}"))
    return True, margin


def run_case(case):
    run.yad()
    from yadism.coefficient_functions import partonic_channel as pc

    XS_EXTRA[:] = [float(v) for v in case.get("xs_extra", [])]
    created = []
    orig_init = pc.RSL.__init__

    def spy(self, *a, **k):
        orig_init(self, *a, **k)
        created.append(self)

    pc.RSL.__init__ = spy
    viol, nontrivial, classes = [], set(), set()
    counters = dict(rsl_init=0, identity_checks=0, finiteness_evals=0, explicit_domain_rejections=0)
    margin, sample = 0.0, None
    todo = []  # (label, key, rsl)
    try:
        if case["mode"] == "module":
            fam, proc, nf = case["family"], case["proc"], case["nf"]
            classes.add(fam)
            mods = []
            # the module of this case last, its siblings (other kinds, same family and process, same kinematic point) first: all
            # in one process, so that state shared between sibling kernels shows
            for kind in [k_ for k_ in KINDS if k_ != case["kind"]] + [case["kind"]]:
                try:
                    mods.append((kind, importlib.import_module(f"yadism.coefficient_functions.{fam}.{kind}_{proc}")))
                except ModuleNotFoundError:
                    continue
            if not mods or mods[-1][0] != case["kind"]:
                return dict(status="held", compared=0, nontrivial=[], classes=[], probes=counters, sample=dict(module=f"{fam}.{case['kind']}_{proc}", exists=False))
            for kind, m, cname, c in [(kd, md, cn, cc) for kd, md in mods for cn, cc in sorted(vars(md).items())]:
                if not (isinstance(c, type) and issubclass(c, pc.PartonicChannel) and c is not pc.PartonicChannel):
                    continue
                if c.__module__.split(".")[-1] in ("partonic_channel",) or cname.startswith("_"):
                    continue
                # every mass ratio in two representations: Q2 varied at unit mass, and the mass varied at one common Q2 (a kernel is a
                # function of the ratio; state keyed by Q2 alone or by the mass alone shows in one of the two scans)
                reps = [(r_, r_, 1.0) for r_ in case["ratios"]] + ([(r_, 50.0, 50.0 / r_) for r_ in case["ratios"]] if fam != "light" else [])
                for ratio, q2_, msq_ in reps:
                    e = FakeESF(case["x"], q2_)
                    try:
                        if fam == "light":
                            inst = c(e, nf)
                        elif fam == "heavy":
                            inst = c(e, nf, m2hq=msq_, n3lo_cf_variation=case["variation"]) if proc == "nc" else c(e, nf, m2hq=msq_)
                        elif fam == "asy":
                            inst = c(e, nf, m2hq=msq_, n3lo_cf_variation=case["variation"])
                        else:
                            inst = c(e, nf, m1sq=msq_, m2sq=msq_) if proc == "nc" else c(e, nf, m1sq=msq_)
                    except TypeError:
                        try:
                            inst = c(e, nf, m2hq=msq_) if fam in ("heavy", "asy") else c(e, nf)
                        except Exception:
                            continue
                    for o in range(4):
                        n0 = len(created)
                        try:
                            rsl = inst[o]()
                        except Exception as ex:
                            viol.append(dict(sig=f"order-raises|{fam}.{kind}_{proc}.{cname}|o{o}|{type(ex).__name__}", what=f"{fam}.{kind}_{proc}.{cname}[{o}]() raised {type(ex).__name__}: {str(ex)[:150]} (nf={nf}, Q2/m2={ratio})"))
                            continue
                        if rsl is None:
                            continue
                        try:
                            cp = float(inst.convolution_point())
                        except Exception:  # noqa: BLE001
                            cp = None
                        todo.append((f"{fam}.{kind}_{proc}.{cname}.o{o}", f"{fam}|{kind}_{proc}|{cname}|o{o}|nf{nf}", rsl, dict(nf=nf, ratio=ratio, cpoint=cp, sibling=(kind != case["kind"]), rep=f"Q2={q2_:g}")))
        elif case["mode"] == "splitting":
            from yadism.coefficient_functions import splitting_functions as split

            classes.add("splitting")
            for order_labels in split.raw_labels:
                for lab, fnc in order_labels.items():
                    rsl = fnc(case["nf"])
                    todo.append((f"split.{lab}", f"splitting|{lab}|nf{case['nf']}", rsl, dict(nf=case["nf"])))
        else:
            yad = run.yad()
            from yadism import coefficient_functions as cf

            classes.add("runner")
            th = cards.theory(**case["theory"])
            name = f"{case['kind']}_{case['heavy']}"
            ob = cards.observables({name: [case["point"]]}, **case["obs"])
            r = yad.Runner(th, ob)
            for esf in r.observables[name].elements:
                for k in cf.Combiner(esf).collect_elems():
                    for o in range(4):
                        if not k.has_order(o):
                            continue
                        rsl = k.coeff[o]()
                        if rsl is None:
                            continue
                        mod = type(k.coeff).__module__.split(".")
                        m2 = getattr(k.coeff, "m2hq", None)
                        todo.append((f"{mod[2]}.{mod[3]}.{type(k.coeff).__name__}.o{o}", f"{mod[2]}|{mod[3]}|{type(k.coeff).__name__}|o{o}|nf{k.coeff.nf}", rsl,
                                     dict(point=case["point"], scheme=th["FNS"], ratio=(float(case["point"]["Q2"] / m2) if m2 else None))))
    finally:
        pc.RSL.__init__ = orig_init
    counters["rsl_init"] = len(created)
    seen = set()
    for label, key, rsl, info in todo:
        sig = (label, fname(rsl.reg), fname(rsl.sing), fname(rsl.loc), tuple(rsl.args["reg"].tolist()), tuple(rsl.args["sing"].tolist()), tuple(rsl.args["loc"].tolist()), str(info.get("ratio")), info.get("rep"))
        if sig in seen:
            continue
        seen.add(sig)
        nv = len(viol)
        cp_ = info.get("cpoint")
        XS_POINT[:] = [cp_] if (cp_ is not None and 1e-6 < cp_ < 0.9995) else []
        if info.get("sibling"):
            # a sibling kernel is only touched at the common convolution point (this is what a real run does with it)
            if XS_POINT and rsl.loc is not None:
                try:
                    rsl.loc(XS_POINT[0], rsl.args["loc"])
                except Exception:  # noqa: BLE001
                    pass
            continue
        checked, m = check_rsl(rsl, label, viol, counters, info.get('ratio'))
        for v in viol[nv:]:
            v.setdefault("detail", {}).update(info=info)
        margin = max(margin, m) if len(viol) == nv else margin
        nontrivial.add(key)
        if sample is None and checked and len(viol) == nv:
            sample = dict(rsl=label, info=info, parts=[fname(rsl.reg), fname(rsl.sing), fname(rsl.loc)], max_margin=m)
    compared = counters["identity_checks"] + counters["finiteness_evals"]
    return dict(violations=viol, compared=compared, nontrivial=sorted(nontrivial), classes=sorted(classes), margin=margin, probes=counters, sample=sample)
