"""C18 - compiled kernels agree with their Python semantics: differential execution + bounds sanitizer + end-to-end."""
import importlib
import itertools
import os
import time

import numpy as np

from .. import cards, env, run
from ..pool import Pool

PROP = "C18"
LEVEL = "translation_validation"
MODE = "jit"
EXTRA_MODES = ["bounds"]
RULE = (
    "programs = the numba dispatchers found by walking yadism.* (coefficient functions, splitting functions, special functions, TMC "
    "kernels). (diff) each dispatcher is called compiled and through .py_func on the argument vectors the calling classes actually pass "
    "(collected from the RSL objects built by every partonic-channel class / splitting label, nf 3..6, several mass ratios) and on z "
    "samples (bulk, 1e-8, 1-1e-8); helper dispatchers are sampled from their signature; agreement to 1e-9 relative (+1e-12 abs). "
    "(bounds) the same drive and a sample of full runs are repeated in a process with NUMBA_BOUNDSCHECK=1: an IndexError out of compiled "
    "code, or out of .py_func with the real argument vectors, is an out-of-bounds read. (e2e) identical cards are executed in two "
    "processes (JIT on / NUMBA_DISABLE_JIT=1) and all tensors compared with rtol 1e-9/1e-6/5e-6/1e-4 by order plus 5x the quadrature error the code reports for the entry. "
    "Distinct = dispatcher (diff/bounds) or configuration cell (e2e); non-trivial = compiled and interpreted values were both obtained and compared."
    " End-to-end lattice: one small NLO card per (scheme, process, kind, heavyness) cell in both execution modes, any exception type being an outcome that must agree. Special functions are sampled on their whole real domain. Thorough tier: sixteen small cards run under valgrind memcheck (partial-loads-ok=no); a report counts only when the faulting instruction is in JIT-emitted code."
)
ASSUMPTIONS = ["numba's interpreter fallback (.py_func) is the reference semantics; callees of a kernel stay compiled when it is run through py_func",
               "NUMBA_BOUNDSCHECK=1 instruments every array access of the compiled kernels"]  # fmt: skip
FAMILIES = ["light", "heavy", "asy", "intrinsic"]
KINDS = ["f2", "fl", "f3", "g1", "gl", "g4"]
ZS = [1e-8, 1e-4, 0.013, 0.1, 0.37, 0.5, 0.82, 0.97, 1 - 1e-4, 1 - 1e-8]
E2E_RTOL = {0: 1e-9, 1: 1e-6, 2: 5e-6, 3: 1e-4}  # (NLO was 1e-7 until a thorough sweep met 4.7e-7: last-bit differences steer QUADPACK, whose true accuracy next to end-point singularities is ~1e-6, cf. C01)


def budget(tier):
    return 290 if tier == "quick" else 1750


def floor(tier):
    return dict(min_conclusive=30, min_nontrivial=100, classes=["diff", "bounds", "e2e", "bounds-run"], probes=["programs", "diff_evals", "bounds_evals"], min_compared=2000)


def cases(tier, rng):
    out = []
    k = 0
    for fam, kind, proc in itertools.product(FAMILIES, KINDS, ["nc", "cc"]):
        nfs = [3, 4, 5, 6] if fam == "light" else [3, 4, 5]
        if tier == "quick":
            nfs = [int(cards.pick(rng, nfs))]
        for what in ("diff", "bounds"):
            out.append(dict(id=f"c18-{what}-{fam}-{kind}_{proc}", mode=what, drive="module", family=fam, kind=kind, proc=proc, nfs=nfs,
                            ratios=[1.5, 40.0, 3e4] if tier == "quick" else [1.1, 5.0, 40.0, 1e3, 3e4, 1e6], x=float(cards.logu(rng, 1e-3, 0.3))))  # fmt: skip
        k += 1
    for what in ("diff", "bounds"):
        out.append(dict(id=f"c18-{what}-splitting", mode=what, drive="splitting", nfs=[3, 4, 5, 6]))
        out.append(dict(id=f"c18-{what}-helpers", mode=what, drive="helpers", seed=int(rng.integers(1 << 30))))
    n = 12 if tier == "quick" else 300
    for i in range(n):
        cfg = cards.rand_config(rng, ptos=(0, 1, 2, 2) if tier == "quick" else (0, 1, 2, 2, 3), sv=True)
        if i % 4 == 0:
            cfg["theory"]["TMC"] = int(cards.pick(rng, [1, 3]))
            cfg["kinds"] = [k_ for k_ in cfg["kinds"] if k_ not in ("gL", "g4")]
        g = cards.rand_grid(rng)
        out.append(dict(id=f"c18-e2e-{i}", mode="e2e", kind=cards.pick(rng, cfg["kinds"]), heavy=cards.pick(rng, ["total", "light", "charm"]), grid=g,
                        points=cards.rand_points(rng, g["xgrid"], n=2, q2lo=3.0, q2hi=3e3, xmax=0.7), **cfg))  # fmt: skip
    # e2e lattice: one small NLO card per (scheme, process, kind, heavyness) cell, so that every Python-level coefficient-function
    # builder (which may hand a compiled dispatcher something it only accepts when interpreted) is executed in both modes
    cells = [(sch, proc, kind, heavy) for sch in cards.SCHEMES for proc in ("EM", "NC", "CC") for kind in (("F2", "FL", "F3", "g1") if proc == "NC" else ("F2", "FL", "F3") if proc == "CC" else ("F2", "FL"))
             for heavy in ("total", "light", "charm", "bottom")]  # fmt: skip
    pick = [int(j) for j in rng.permutation(len(cells))[: len(cells)]]
    for j in sorted(pick):
        sch, proc, kind, heavy = cells[j]
        pto = 1 if (tier == "quick" or j % 3) else 2
        if kind == "g1" and sch in ("FFN0", "FONLL-FFN0") and pto == 2:
            pto = 1
        out.append(dict(id=f"c18-e2e-cell{j}", mode="e2e", kind=kind, heavy=heavy, grid=dict(xgrid=cards.grid(4, 3, x_min=1e-3), deg=3, is_log=True),
                        points=[dict(x=float(rng.uniform(0.05, 0.5)), Q2=cards.logu(rng, 10.0, 300.0), cls="bulk")],
                        theory=dict(PTO=pto, FNS=sch, NfFF=int(cards.pick(rng, [3, 4]))), obs=dict(prDIS=proc, ProjectileDIS="electron" if proc != "CC" else cards.pick(rng, ["neutrino", "positron"])), kinds=[kind]))  # fmt: skip
    # anchors: the target-mass-correction kernels (h2, g2, h3, k2) are only reached with TMC on, k2 only by g1 in exact mode
    k = 0
    for kind in ("F2", "FL", "F3", "g1"):
        for tmc in (1, 3):
            g = cards.rand_grid(rng)
            base = dict(kind=kind, heavy="total", grid=g, points=[dict(x=float(rng.uniform(0.3, 0.6)), Q2=cards.logu(rng, 5.0, 50.0), cls="bulk")],
                        theory=dict(PTO=int(cards.pick(rng, [0, 1])), FNS="ZM-VFNS", NfFF=4, TMC=tmc, MP=float(rng.uniform(0.5, 1.5))),
                        obs=dict(prDIS="NC" if kind != "F3" else "CC", ProjectileDIS="electron" if kind != "F3" else "neutrino"), kinds=[kind])  # fmt: skip
            out.append(dict(id=f"c18-brun-tmc{k}", mode="bounds-run", **base))
            out.append(dict(id=f"c18-e2e-tmc{k}", mode="e2e", **base))
            k += 1
            if tier == "thorough" or os.environ.get("VERIF_MEMCHECK"):
                out.append(dict(id=f"c18-vg-tmc{k}", mode="memcheck", **base))
    # valgrind memcheck over whole production-mode runs (thorough tier: ~10-15 min each, run beside the other pools): the TMC anchors
    # above plus one small card per kernel family
    if tier == "thorough" or os.environ.get("VERIF_MEMCHECK"):
        g = dict(xgrid=cards.grid(5, 4, x_min=1e-3), deg=3, is_log=True)
        for j, (kind, heavy, proc, proj, th_) in enumerate((
            ("F2", "total", "CC", "neutrino", dict(PTO=1, FNS="FFNS", NfFF=4)),
            ("F3", "charm", "CC", "antineutrino", dict(PTO=1, FNS="FONLL-FFN0", NfFF=3)),
            ("F2", "total", "NC", "electron", dict(PTO=2, FNS="ZM-VFNS", NfFF=4)),
            ("FL", "charm", "NC", "electron", dict(PTO=2, FNS="FFNS", NfFF=3)),
            ("F2", "bottom", "NC", "positron", dict(PTO=2, FNS="FONLL-FFN0", NfFF=4)),
            ("g1", "total", "NC", "electron", dict(PTO=2, FNS="ZM-VFNS", NfFF=5)),
            ("F3", "light", "NC", "electron", dict(PTO=3, FNS="ZM-VFNS", NfFF=4)),
            ("F2", "charm", "NC", "electron", dict(PTO=1, FNS="FFNS", NfFF=3, IC=1)),
        )):  # fmt: skip
            out.append(dict(id=f"c18-vg-{j}", mode="memcheck", kind=kind, heavy=heavy, grid=g, points=[dict(x=float(rng.uniform(0.02, 0.4)), Q2=cards.logu(rng, 8.0, 300.0), cls="bulk")],
                            theory=dict(th_, RenScaleVar=True, FactScaleVar=True), obs=dict(prDIS=proc, ProjectileDIS=proj), kinds=[kind]))  # fmt: skip
    n = 40 if tier == "quick" else 1500
    for i in range(n):
        cfg = cards.rand_config(rng, ptos=(0, 1, 2, 3), sv=True)
        if i % 5 == 0:
            cfg["theory"]["TMC"] = int(cards.pick(rng, [1, 2, 3]))
            cfg["kinds"] = [k_ for k_ in cfg["kinds"] if k_ not in ("gL", "g4")]
        g = cards.rand_grid(rng)
        out.append(dict(id=f"c18-brun-{i}", mode="bounds-run", kind=cards.pick(rng, cfg["kinds"]), heavy=cards.pick(rng, ["total", "light", "charm", "bottom"]), grid=g,
                        points=cards.rand_points(rng, g["xgrid"], n=1, q2lo=3.0, q2hi=3e3, xmax=0.7), **cfg))  # fmt: skip
    return out


# ----------------------------------------------------------------------------------------------------------- worker side
class FakeESF:
    def __init__(self, x, Q2):
        self.x, self.Q2 = x, Q2


def is_dispatcher(f):
    return hasattr(f, "py_func") and hasattr(f, "nopython_signatures")


def dname(f):
    return f"{f.py_func.__module__.replace('yadism.coefficient_functions.', '').replace('yadism.', '')}.{f.py_func.__name__}"


def collect_rsls(case):
    """RSL objects from the real classes (module drive) or labels (splitting drive)."""
    run.yad()
    from yadism.coefficient_functions import partonic_channel as pc

    rsls = []
    if case["drive"] == "splitting":
        from yadism.coefficient_functions import splitting_functions as split

        for nf in case["nfs"]:
            for d in split.raw_labels:
                for lab, fnc in d.items():
                    rsls.append((f"split.{lab}", fnc(nf)))
        return rsls
    fam, kind, proc = case["family"], case["kind"], case["proc"]
    try:
        m = importlib.import_module(f"yadism.coefficient_functions.{fam}.{kind}_{proc}")
    except ModuleNotFoundError:
        return rsls
    for cname, c in sorted(vars(m).items()):
        if not (isinstance(c, type) and issubclass(c, pc.PartonicChannel) and c is not pc.PartonicChannel):
            continue
        for nf in case["nfs"]:
            for ratio in case["ratios"] if fam != "light" else case["ratios"][:1]:
                e = FakeESF(case["x"], ratio)
                try:
                    if fam == "light":
                        inst = c(e, nf)
                    elif fam == "heavy":
                        inst = c(e, nf, m2hq=1.0) if proc == "cc" else c(e, nf, m2hq=1.0, n3lo_cf_variation=0)
                    elif fam == "asy":
                        inst = c(e, nf, m2hq=1.0, n3lo_cf_variation=0)
                    else:
                        inst = c(e, nf, m1sq=1.0, m2sq=1.0) if proc == "nc" else c(e, nf, m1sq=1.0)
                except Exception:
                    continue
                for o in range(4):
                    try:
                        r = inst[o]()
                    except Exception:
                        continue
                    if r is not None:
                        rsls.append((f"{fam}.{kind}_{proc}.{cname}.o{o}", r))
    return rsls


# the special functions are total on the reals (li2, nielsen) or on x > 0 (s2): every branch of their argument reduction is admissible
WIDE = [-37.0, -2.0, -1.5, -1.0, -0.5, -1e-9, 0.0, 1e-9, 0.3, 0.5, 1.0, 1.0 + 1e-9, 1.5, 2.0, 2.0 + 1e-9, 3.7, 1e3]


def sample_args(f, rng):
    """Argument tuples for a dispatcher from its first signature."""
    import numba

    sig = f.nopython_signatures[0]
    sets = []
    if f.py_func.__module__.startswith("yadism.coefficient_functions.special"):
        xs = WIDE + [float(rng.uniform(-3, 4)) for _ in range(6)]
        if f.py_func.__name__ == "li2":
            return [(x,) for x in xs]
        if f.py_func.__name__ == "s2":
            return [(x,) for x in xs if x > 0]
        if f.py_func.__name__ == "nielsen":
            legal = [(n, m) for n in range(1, 5) for m in range(1, 5) if n + m <= 5]
            return [(n, m, x) for n, m in legal for x in xs] + [(0, 1, 0.3), (3, 3, 0.3), (5, 1, 0.3), (1, 5, 0.3)]
    for _ in range(12):
        args = []
        for t in sig.args:
            if isinstance(t, numba.types.Array):
                args.append(np.array([float(rng.integers(3, 6)), float(rng.uniform(0.5, 8.0)), float(rng.uniform(0.5, 8.0))]))
            elif isinstance(t, numba.types.Integer):
                args.append(int(rng.integers(1, 3)))
            elif isinstance(t, numba.types.Float):
                args.append(float(rng.choice(ZS[1:-1])))
            elif isinstance(t, numba.types.Complex):
                args.append(complex(rng.uniform(0.05, 0.95), 0.0))
            else:
                return []
        sets.append(tuple(args))
    return sets


def all_dispatchers():
    import yadism  # noqa: F401

    found = {}
    for mname in env.yadism_modules():
        if mname.startswith("yadism.") and ("coefficient_functions" in mname or "esf" in mname):
            try:
                m = importlib.import_module(mname)
            except Exception:
                continue
            for n_, f in vars(m).items():
                if is_dispatcher(f) and f.py_func.__module__.startswith("yadism"):
                    found[dname(f)] = f
    return found


def close(a, b):
    a, b = complex(a), complex(b)
    if not (np.isfinite(a.real) and np.isfinite(b.real)):
        return (np.isnan(a.real) and np.isnan(b.real)) or a == b, 0.0
    d = abs(a - b)
    tol = 1e-9 * max(abs(a), abs(b)) + 1e-12
    return d <= tol, d / tol


def run_kernels(case):
    what = case["mode"]
    viol, nontrivial = [], set()
    counters = dict(programs=0, diff_evals=0, bounds_evals=0)
    margin, sample = 0.0, None
    jobs = []  # (name, dispatcher, argtuple, label)
    if case["drive"] == "helpers":
        rng = np.random.default_rng(case["seed"])
        for name, f in sorted(all_dispatchers().items()):
            for args in sample_args(f, rng):
                jobs.append((name, f, args, "signature-sampled"))
    else:
        seen = set()
        for label, rsl in collect_rsls(case):
            for part in ("reg", "sing", "loc"):
                f = getattr(rsl, part)
                if f is None or not is_dispatcher(f):
                    continue
                vec = rsl.args[part]
                key = (dname(f), tuple(vec.tolist()))
                if key in seen:
                    continue
                seen.add(key)
                for z in ZS:
                    jobs.append((dname(f), f, (float(z), vec), label))
    progs = set()
    for name, f, args, label in jobs:
        progs.add(name)
        try:
            c = f(*args)
            cerr = None
        except Exception as e:  # noqa: BLE001
            c, cerr = None, e
        if what == "bounds":
            counters["bounds_evals"] += 1
            if isinstance(cerr, IndexError):
                viol.append(dict(sig=f"oob-compiled|{name}", what=f"{name} (used by {label}) reads outside its argument array under NUMBA_BOUNDSCHECK=1: args {[a.tolist() if hasattr(a,'tolist') else a for a in args]}: {cerr}"))
            else:
                nontrivial.add(name)
            continue
        try:
            p = f.py_func(*args)
            perr = None
        except Exception as e:  # noqa: BLE001
            p, perr = None, e
        counters["diff_evals"] += 1
        if isinstance(perr, IndexError) and not isinstance(cerr, IndexError):
            viol.append(dict(sig=f"oob-interpreted|{name}", what=f"{name} (used by {label}) raises IndexError in the interpreter with the argument vector its caller passes ({[a.tolist() if hasattr(a,'tolist') else a for a in args]}): the compiled code reads past the end of the array"))
            continue
        if (cerr is None) != (perr is None):
            if type(cerr).__name__ in ("ZeroDivisionError",) or type(perr).__name__ in ("ZeroDivisionError",):
                # numba raises where numpy returns inf/nan: same mathematical singularity, both modes agree that the point is singular
                continue
            viol.append(dict(sig=f"raise-mismatch|{name}", what=f"{name}{args}: compiled {'raised '+type(cerr).__name__ if cerr else 'returned '+repr(c)}, interpreted {'raised '+type(perr).__name__ if perr else 'returned '+repr(p)}"))
            continue
        if cerr is not None:
            continue
        ok, m = close(c, p)
        nontrivial.add(name)
        if not ok:
            viol.append(dict(sig=f"jit-vs-python|{name}", what=f"{name} at z={args[0]!r} args {[a.tolist() if hasattr(a,'tolist') else a for a in args[1:]]} (used by {label}): compiled {c!r}, interpreted {p!r}"))
        else:
            margin = max(margin, m)
            if sample is None and c != 0:
                sample = dict(kernel=name, used_by=label, args=[a.tolist() if hasattr(a, "tolist") else a for a in args], compiled=float(np.real(c)), interpreted=float(np.real(p)))
    counters["programs"] = len(progs)
    return dict(violations=viol, compared=counters["diff_evals"] + counters["bounds_evals"], nontrivial=sorted(nontrivial), classes=[what], margin=margin,
                probes=counters, sample=sample, programs=sorted(progs))  # fmt: skip


def run_full(case):
    th = cards.theory(**case["theory"])
    g = case["grid"]
    name = f"{case['kind']}_{case['heavy']}"
    pts = [dict(x=p["x"], Q2=p["Q2"]) for p in case["points"]]
    ob = cards.observables({name: pts}, xgrid=g["xgrid"], deg=g["deg"], is_log=g["is_log"], **case["obs"])
    try:
        out = run.run(th, ob)
    except IndexError as e:
        if case["mode"] == "bounds-run":
            return dict(violations=[dict(sig=f"oob-run|{run.exc_sig(e)}", what=f"{name} {case['obs']['prDIS']} {th['FNS']} PTO={th['PTODIS']}: IndexError under NUMBA_BOUNDSCHECK=1: {e}")], compared=1, classes=["bounds-run"])
        if case["mode"] == "e2e":
            # (an IndexError in interpreter mode where the compiled run returns numbers is exactly a disagreement of the two)
            return dict(status="held", raised=f"IndexError: {str(e)[:80]}", compared=0, classes=["e2e"])
        raise
    except (ValueError, NotImplementedError) as e:
        # a rejection of the request (C16 judges those): for e2e both executions must agree on it
        return dict(status="held", raised=f"{type(e).__name__}: {str(e)[:80]}", compared=0, classes=[case["mode"]], probes=dict(bounds_evals=1))
    except Exception as e:  # noqa: BLE001
        if case["mode"] == "e2e":
            # any other failure is an outcome too: a typing error of a compiled dispatcher exists in one execution mode only
            return dict(status="held", raised=f"{type(e).__name__}: {str(e)[:80]}", compared=0, classes=["e2e"])
        raise
    if case["mode"] == "bounds-run":
        return dict(violations=[], compared=1, nontrivial=[f"brun|{case['kind']}|{case['obs']['prDIS']}|{th['FNS']}|pto{th['PTODIS']}"], classes=["bounds-run"], probes=dict(bounds_evals=1),
                    sample=dict(obs=name, scheme=th["FNS"], PTO=th["PTODIS"], outcome="no out-of-bounds access reported"))  # fmt: skip
    tens = {run.key(o): np.asarray(v[0]).tolist() for i, r in enumerate(out[name]) for o, v in r.orders.items() if i == 0}
    tens2 = [{run.key(o): np.asarray(v[0]).tolist() for o, v in r.orders.items()} for r in out[name]]
    errs2 = [{run.key(o): np.asarray(v[1]).tolist() for o, v in r.orders.items()} for r in out[name]]
    return dict(status="held", tensors=tens2, errors=errs2, compared=0)


def run_case(case):
    if case["mode"] in ("diff", "bounds"):
        return run_kernels(case)
    return run_full(case)


# ----------------------------------------------------------------------------------------------------------- driver side
def execute(cases, deadline, progress):
    results = [None] * len(cases)
    idx = {m: [i for i, c in enumerate(cases) if c["mode"] == m] for m in ("diff", "bounds", "e2e", "bounds-run")}  # ("memcheck" cases: below)
    # python-mode end-to-end runs are the slowest: start them first, in their own pool, while the other pools work
    import threading

    py_res = {}

    def py_part():
        r = Pool(PROP, "py", nworkers=max(2, env.NCPU // 2), case_timeout=900).map([cases[i] for i in idx["e2e"]], deadline)
        for i, x in zip(idx["e2e"], r):
            py_res[i] = x

    t = threading.Thread(target=py_part, daemon=True)
    t.start()
    # valgrind memcheck programs: one subprocess each, started now, collected at the end (a time-out is inconclusive, never a violation)
    from concurrent.futures import ThreadPoolExecutor

    from .. import memcheck

    mc_idx = [i for i, c in enumerate(cases) if c["mode"] == "memcheck"]
    mc_pool = ThreadPoolExecutor(max_workers=max(1, min(len(mc_idx), env.NCPU))) if mc_idx else None
    mc_fut = {}
    if mc_idx and not memcheck.available():
        for i in mc_idx:
            results[i] = dict(status="inconclusive", reason="valgrind-not-installed")
    elif mc_idx:
        for i in mc_idx:
            mc_fut[i] = mc_pool.submit(memcheck.run_one, cases[i], float(os.environ.get("VERIF_MEMCHECK_TIMEOUT", 2700)))
    half = max(2, env.NCPU // 2)
    for mode, pmode in (("e2e", "jit"), ("diff", "jit"), ("bounds", "bounds"), ("bounds-run", "bounds")):
        r = Pool(PROP, pmode, nworkers=half, case_timeout=600).map([cases[i] for i in idx[mode]], deadline, progress)
        for i, x in zip(idx[mode], r):
            results[i] = x
    t.join()
    for i, f in mc_fut.items():
        try:
            results[i] = f.result()
        except Exception as e:  # noqa: BLE001
            results[i] = dict(status="inconclusive", reason=f"memcheck-harness:{type(e).__name__}")
    if mc_pool is not None:
        mc_pool.shutdown(wait=False)
    # compare the two executions of every e2e card
    for i in idx["e2e"]:
        a, b = results[i], py_res.get(i)
        c = cases[i]
        if a is not None and b is not None and ("raised" in a or "raised" in b):
            if a.get("raised") == b.get("raised"):
                results[i] = dict(violations=[], compared=1, classes=["e2e"], nontrivial=[], sample=dict(both_rejected=a.get("raised")))
            else:
                results[i] = dict(violations=[dict(sig="e2e-raise-mismatch", what=f"{c['kind']}_{c['heavy']}: JIT run {a.get('raised','returned a result')!r}, interpreter run {b.get('raised','returned a result')!r}")], compared=1, classes=["e2e"])
            continue
        if a is None or b is None or "tensors" not in a or "tensors" not in b:
            results[i] = dict(status="inconclusive", reason="e2e-run-missing:" + str((a or {}).get("reason", "")) + "/" + str((b or {}).get("reason", "")))
            continue
        viol, compared, margin = [], 0, 0.0
        nz = False
        for ip, (ta, tb) in enumerate(zip(a["tensors"], b["tensors"])):
            if list(ta) != list(tb):
                viol.append(dict(sig="e2e-keys", what=f"order keys differ between JIT and interpreter run: {list(ta)} vs {list(tb)}"))
                continue
            for k_ in ta:
                va, vb = np.array(ta[k_]), np.array(tb[k_])
                o = int(k_[1])
                sc = max(run.absmax(va), run.absmax(vb))
                # last-bit differences steer scipy's adaptive quadrature differently: the two executions may differ by the
                # integration error the code itself reports for the entry (measured: 8e-5 relative at NNLO, error estimate 1e-5..1e-4)
                ea, eb = np.abs(np.array(a["errors"][ip][k_])), np.abs(np.array(b["errors"][ip][k_]))
                tol = E2E_RTOL[o] * sc + 5.0 * (ea + eb) + 1e-300
                dmat = np.abs(va - vb)
                m, d = (float(np.max(dmat / tol)), float(np.max(dmat))) if np.all(np.isfinite(dmat)) else (float("inf"), float("nan"))
                compared += va.size
                nz = nz or sc > 0
                if m > 1:
                    viol.append(dict(sig=f"e2e|o{o}", what=f"{c['kind']}_{c['heavy']} {c['obs']['prDIS']} {c['theory']['FNS']} PTO={c['theory']['PTO']} point {ip} key {k_}: JIT and NUMBA_DISABLE_JIT=1 runs differ by {d:.3g} (scale {sc:.3g}, tol {E2E_RTOL[o]:g})"))
                else:
                    margin = max(margin, m)
        results[i] = dict(violations=viol, compared=compared, margin=margin, classes=["e2e"],
                          nontrivial=[f"e2e|{c['kind']}|{c['heavy']}|{c['obs']['prDIS']}|{c['theory']['FNS']}|pto{c['theory']['PTO']}"] if nz else [],
                          sample=dict(obs=f"{c['kind']}_{c['heavy']}", scheme=c["theory"]["FNS"], PTO=c["theory"]["PTO"], entries_compared=compared, max_margin=margin))  # fmt: skip
    return results


def extra_coverage(cases, results):
    mc = [dict(program=c["id"], observable=f"{c['kind']}_{c['heavy']}", theory=c["theory"], process=c["obs"]["prDIS"],
               outcome=(r or {}).get("reason") or ((r or {}).get("sample") or {}).get("valgrind_summary"), reports=((r or {}).get("sample") or {}).get("reports"),
               wall_s=((r or {}).get("sample") or {}).get("wall_s"))
          for c, r in zip(cases, results) if c.get("mode") == "memcheck"]  # fmt: skip
    extra = dict(memcheck=mc) if mc else dict(memcheck="not part of the quick tier (8-15 min per program with a cold numba cache): thorough tier only")
    return dict(extra, **_extra_programs(cases, results))


def _extra_programs(cases, results):
    progs = set()
    for r in results:
        if r and r.get("programs"):
            progs.update(r["programs"])
    return dict(programs=len(progs), programs_list=sorted(progs))
