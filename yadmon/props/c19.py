"""C19 - predictions are stable under refinement of the interpolation grid (relation-between-runs monitor)."""
import numpy as np

from .. import cards, pdfs, quad, run

PROP = "C19"
LEVEL = "exploration"
RULE = (
    "per case a refinement family of 4-5 grids (more nodes and/or higher degree, log/mixed spacing, all containing the requested x "
    "range) is run for one observable (F2, FL, F3, g1; NC/EM/CC; ZM-VFNS or FFNS; PTO 0..2) and contracted with a smooth PDF "
    "x^a(1-x)^b(1+cx); the grid-independent truth is the direct convolution of the recorded kernels with the analytic PDF (yadmon.quad, "
    "no basis code); the interpolation error eps(g) of each grid is measured from eko's basis on the PDF. Oracle: (i) |pred(g)-truth| <= "
    "K_k eps(g) S + 1e-6 S for adequate grids (eps <= 1e-2), K_0=5, K_1=K_2=300; (ii) a drop of eps by >= 10 must not make the error worse (factor 2); the floor "
    "of (i),(ii) includes 5x the code's own contracted quadrature-error estimate; (iii) SV keys of the two finest grids agree within K max(eps) S; (iv) x on a node vs x(1+-1e-9): predictions "
    "within 3e-6/3e-6/5e-5 S by order; (vi) the finest grid and a twin of equal size/end points/degree but other interior nodes agree within K (eps+eps') S for every key; (v) with TMC 1/3 at x in [0.8,0.95] successive grids agree within K (eps_i+eps_j) S; node tolerances plus 5x the code's own contracted quadrature-error estimate. Distinct = (kind, process, scheme, order, x class, relation); non-trivial = truth non-zero and at least two adequate grids."
    " A grid of the family that raises after the first grid of the family was computed in the same process is a violation (refinement-raises); a request that fails on the first grid already is inconclusive."
)
ASSUMPTIONS = ["'adequate grid' is operationalised as measured interpolation error <= 1e-2; coarser grids are not judged",
               "K factors calibrated on the pinned tree (loose by design: the sharp entrywise statement about the same code is C01)"]  # fmt: skip
K = {0: 5.0, 1: 300.0, 2: 300.0}
FLOOR = 1e-6
# node continuity: yadism's own quadrature noise between two neighbouring convolution points (measured <= 5e-6 S at NNLO)
NODE_TOL = {0: 3e-6, 1: 3e-6, 2: 5e-5}  # LO: round-off of eko's monomial-form basis on fine log grids (measured 9e-8 for 77 nodes, degree 5)


def budget(tier):
    return 290 if tier == "quick" else 1750


def floor(tier):
    return dict(min_conclusive=10 if tier == "quick" else 100, min_nontrivial=20 if tier == "quick" else 120,
                classes=["bound", "monotone", "sv-agree", "node-continuity", "on-node", "tmc-family", "twin-grid"], probes=["collect_elems", "truth_integrals"], min_compared=80)  # fmt: skip


def cases(tier, rng):
    n = 18 if tier == "quick" else 200
    out = []
    for i in range(n):
        kind = cards.pick(rng, ["F2", "FL", "F3", "g1", "F2"])
        proc = "CC" if (kind == "F3" and rng.random() < 0.6) else cards.pick(rng, ["NC", "EM"] if kind != "F3" else ["NC"])
        scheme = cards.pick(rng, ["ZM-VFNS", "ZM-VFNS", "FFNS"])
        pto = int(cards.pick(rng, [0, 1, 1, 2] if tier == "quick" else [0, 1, 2, 2]))
        xcls = cards.pick(rng, ["lowx", "midx", "highx"])
        x = {"lowx": cards.logu(rng, 1e-3, 1e-2), "midx": float(rng.uniform(0.05, 0.3)), "highx": float(rng.uniform(0.4, 0.7))}[xcls]
        fam = []
        base = int(rng.integers(10, 16))
        for lvl in range(4 if tier == "quick" else 5):
            nl = int(base * 1.5**lvl)
            fam.append(dict(n_low=nl, n_mid=max(6, int(nl * 0.8)), deg=int(min(5, 2 + lvl + (1 if rng.random() < 0.3 else 0))), kind=cards.pick(rng, ["mixed", "mixed", "log"])))
        tmc = 0
        if i % 4 == 1:
            # target-mass corrected predictions have no kernel-level truth: judged by the agreement between successive grids only;
            # high x, where the Nachtmann variable sits in the top cells of the grid
            tmc = int(cards.pick(rng, [1, 3]))
            xcls = "veryhighx"
            x = float(rng.uniform(0.8, 0.95))
            kind = cards.pick(rng, ["F2", "FL", "F3"])
            proc = "CC" if kind == "F3" else proc
            pto = min(pto, 1)
        heavy = cards.pick(rng, ["total", "light"])
        is_log = True
        if i % 3 == 2 and not tmc:
            # linear interpolation (polynomials in x): adequate from medium x upwards; and the asymptotic schemes, whose intrinsic
            # matching kernels are the only singular-without-regular distributions of the package
            is_log = False
            if xcls == "lowx":
                xcls, x = "midx", float(rng.uniform(0.05, 0.3))
            scheme = cards.pick(rng, ["ZM-VFNS", "FFN0", "FONLL-FFN0", "FFNS"])
            if scheme in ("FFN0", "FONLL-FFN0"):
                pto = max(pto, 1)
                kind = cards.pick(rng, ["F2", "F3", "F2", "FL"])
                proc = "CC" if (kind == "F3" and rng.random() < 0.5) else "NC"
                heavy = cards.pick(rng, ["charm", "total", "charm"])
        out.append(dict(id=f"c19-{i}", tmc=tmc, kind=kind, proc=proc, scheme=scheme, pto=pto, x=float(x), xcls=xcls, Q2=cards.logu(rng, 5.0, 1e3), family=fam, is_log=is_log,
                        heavy=heavy, pdf=pdfs.SmoothPDF.random(rng), proj="neutrino" if proc == "CC" else "electron", timeout=900))  # fmt: skip
    return out


def interp_error(interp, nodes, pdf, x):
    """max over partons of max_u |f(u) - sum_j f(x_j) p_j(u)| / max_u |f(u)|, u in [x,1), sampled on 1500 log-spaced points."""
    us = np.exp(np.linspace(np.log(x), 0.0, 1501))[:-1]
    B = np.array([[bf.evaluate_x(u) for u in us] for bf in interp])  # (nodes, us)
    worst = 0.0
    for pid in cards.PIDS:  # every flavour the PDF provides (the heavy-quark densities have their own shapes and are what an intrinsic channel sees)
        fn = np.array([pdf.f(pid, xj) for xj in nodes])
        ex = np.array([pdf.f(pid, u) for u in us])
        if not np.any(ex != 0):
            continue
        ap = fn @ B
        # absolute interpolation residual on [x,1) in units of the largest PDF value there (the PDFs fall with u)
        worst = max(worst, float(np.max(np.abs(ap - ex)) / np.max(np.abs(ex))))
    return worst


def run_tmc_family(case, th):
    """TMC on: successive adequate grids must agree within K (eps_i + eps_j) S + floor (no kernel-level truth available)."""
    yad = run.yad()
    name = f"{case['kind']}_{case['heavy']}"
    pdf = pdfs.make(case["pdf"])
    x, Q2 = case["x"], case["Q2"]
    preds, epss, Ss, Es = [], [], [], []
    for gs in case["family"]:
        xg = cards.grid(gs["n_low"], gs["n_mid"], x_min=1e-4, kind=gs["kind"])
        ob = cards.observables({name: [dict(x=x, Q2=Q2)]}, xgrid=xg, deg=gs["deg"], prDIS=case["proc"], ProjectileDIS=case["proj"], is_log=case.get("is_log", True))
        res = yad.run_yadism(th, ob)[name][0]
        interp = run.interpolator(ob)
        fmat = np.array([[pdf.f(pid, xj) for xj in xg] for pid in cards.PIDS])
        preds.append({o: float(np.sum(np.asarray(v[0]) * fmat)) for o, v in res.orders.items()})
        Ss.append({o: float(np.sum(np.abs(np.asarray(v[0]) * fmat))) for o, v in res.orders.items()})
        Es.append({o: float(np.sum(np.abs(np.asarray(v[1]) * fmat))) for o, v in res.orders.items()})
        # the TMC integrals run over [xi,1]: measure the interpolation error there
        mu = th["MP"] ** 2 / Q2
        xi = 2 * x / (1 + np.sqrt(1 + 4 * x * x * mu))
        epss.append(interp_error(interp, xg, pdf, float(xi)))
    viol, nontrivial, classes = [], set(), {"tmc-family"}
    compared, margin = 0, 0.0
    adequate = [i for i, e in enumerate(epss) if e <= 1e-2]
    for i, j in zip(adequate[:-1], adequate[1:]):
        for key in preds[j]:
            S = max(Ss[i].get(key, 0.0), Ss[j].get(key, 0.0))
            d = abs(preds[i].get(key, 0.0) - preds[j][key])
            bound = K[min(key[0], 2)] * (epss[i] + epss[j]) * S + FLOOR * S + 5.0 * (Es[i].get(key, 0.0) + Es[j].get(key, 0.0))
            compared += 1
            if S > 0:
                nontrivial.add(f"{case['kind']}|{case['proc']}|{case['scheme']}|tmc{th['TMC']}|{run.key(key)}")
            if d > bound:
                viol.append(dict(sig=f"refinement-tmc|{case['kind']}|tmc{th['TMC']}", what=f"{name} TMC={th['TMC']} key {run.key(key)} x={x:.5g} Q2={Q2:.5g}: grids {case['family'][i]} and {case['family'][j]} (interpolation errors {epss[i]:.1e}, {epss[j]:.1e}) predict {preds[i].get(key,0.0):.10g} and {preds[j][key]:.10g}: |diff|/S = {d/max(S,1e-300):.2e} > {bound/max(S,1e-300):.2e}"))
                break
            margin = max(margin, d / max(bound, 1e-300))
    sample = dict(obs=name, TMC=th["TMC"], x=x, Q2=Q2, eps=["%.1e" % e for e in epss], lo_predictions=[p_.get((0, 0, 0, 0)) for p_ in preds])
    return dict(violations=viol, compared=compared, nontrivial=sorted(nontrivial), classes=sorted(classes), margin=margin, probes=dict(collect_elems=1, truth_integrals=1), sample=sample)


def run_case(case):
    yad = run.yad()
    from yadism import coefficient_functions as cf

    th = cards.theory(PTO=case["pto"], FNS=case["scheme"], NfFF=3, RenScaleVar=True, FactScaleVar=True, TMC=case.get("tmc", 0), MP=0.938)
    if case.get("tmc"):
        return run_tmc_family(case, th)
    name = f"{case['kind']}_{case['heavy']}"
    pdf = pdfs.make(case["pdf"])
    x, Q2 = case["x"], case["Q2"]
    rec = {}
    orig = cf.Combiner.collect_elems

    def spy(self):
        elems = orig(self)
        rec[(self.esf.x, self.esf.Q2)] = list(elems)
        return elems

    preds, epss, svp, Ss, Es = [], [], [], [], []
    probes = dict(collect_elems=0, truth_integrals=0)
    viol, nontrivial, classes = [], set(), set()
    compared, margin, sample = 0, 0.0, None
    cf.Combiner.collect_elems = spy
    try:
        for gi, gs in enumerate(case["family"]):
            xg = cards.grid(gs["n_low"], gs["n_mid"], x_min=min(1e-4, x / 5), kind=gs["kind"])
            # put x exactly on a node of the finest grid for the continuity relation
            ob = cards.observables({name: [dict(x=x, Q2=Q2)]}, xgrid=xg, deg=gs["deg"], prDIS=case["proc"], ProjectileDIS=case["proj"], is_log=case.get("is_log", True))
            try:
                out = yad.run_yadism(th, ob)
            except Exception as e:  # noqa: BLE001
                if gi == 0:
                    raise
                # the same request on another (finer) grid of the family, after the first grid was served: there is nothing to converge
                return dict(violations=[dict(sig=f"refinement-raises|{run.exc_sig(e)}", what=f"{name} ({case['proc']}, {case['scheme']}, PTO={case['pto']}) at x={x:.6g} Q2={Q2:.6g}: grid {gi + 1} of the family ({len(xg)} nodes, degree {gs['deg']}) raised {type(e).__name__}: {str(e)[:160]} after grid 1 had been computed in the same process")],
                            compared=1, classes=["refinement-raises"], probes=probes)
            interp = run.interpolator(ob)
            fmat = np.array([[pdf.f(pid, xj) for xj in xg] for pid in cards.PIDS])
            res = out[name][0]
            preds.append({o: float(np.sum(np.asarray(v[0]) * fmat)) for o, v in res.orders.items()})
            Ss.append({o: float(np.sum(np.abs(np.asarray(v[0]) * fmat))) for o, v in res.orders.items()})
            Es.append({o: float(np.sum(np.abs(np.asarray(v[1]) * fmat))) for o, v in res.orders.items()})
            epss.append(interp_error(interp, xg, pdf, x))
    finally:
        cf.Combiner.collect_elems = orig
    probes["collect_elems"] = len(rec)
    elems = rec.get((x, Q2))
    if not elems:
        return dict(status="inconclusive", reason="probe-missing:Combiner.collect_elems", probes=probes)
    # truth from the recorded kernels and the analytic PDF
    truth, tscale = {}, {}
    for k in elems:
        xi = k.coeff.convolution_point()
        if xi >= 1:
            continue
        fker = lambda u, k=k: sum(w * pdf.f(pid, u) for pid, w in k.partons.items())  # noqa: E731
        mod = type(k.coeff).__module__.split(".")
        extra_z = [1.0 / (1.0 + 4.0 * m2 / Q2) for m2 in (th["mc"] ** 2, th["mb"] ** 2, th["mt"] ** 2)] if mod[2] == "heavy" else []
        for o in range(case["pto"] + 1):
            if not k.has_order(o):
                continue
            rsl = k.coeff[o]()
            if rsl is None:
                continue
            v, s, _ = quad.conv(rsl, xi, lambda u: fker(u) if u <= 1.0 else 0.0, extra_z=extra_z)
            probes["truth_integrals"] += 1
            truth[o] = truth.get(o, 0.0) + xi * v
            tscale[o] = tscale.get(o, 0.0) + xi * s
    cellb = f"{case['kind']}|{case['proc']}|{case['scheme']}|{'log' if case.get('is_log', True) else 'lin'}"
    if not case.get("is_log", True):
        classes.add("lin-mode")
    adequate = [i for i, e in enumerate(epss) if e <= 1e-2]
    rows = []
    for o in range(case["pto"] + 1):
        key = (o, 0, 0, 0)
        t = truth.get(o, 0.0)
        errs = []
        for i in range(len(preds)):
            S = max(Ss[i].get(key, 0.0), tscale.get(o, 0.0))
            errs.append((abs(preds[i].get(key, 0.0) - t), S))
        rows.append(dict(order=o, truth=t, eps=["%.1e" % e for e in epss], err_over_S=["%.1e" % (e / max(S, 1e-300)) for e, S in errs]))
        if t != 0 and len(adequate) >= 2:
            nontrivial.add(f"{cellb}|o{o}|{case['xcls']}|bound")
        for i in adequate:
            e, S = errs[i]
            # floor: basis round-off / own quadrature (FLOOR) plus the integration error the code itself reports for this grid
            bound = K[o] * epss[i] * S + FLOOR * S + 5.0 * Es[i].get(key, 0.0)
            compared += 1
            classes.add("bound")
            mg = e / max(bound, 1e-300)
            if mg > 1:
                viol.append(dict(sig=f"refinement-bound|{case['kind']}|o{o}", what=f"{name} {case['proc']} {case['scheme']} order {o} x={x:.5g} Q2={Q2:.5g}: grid {case['family'][i]} (measured interpolation error {epss[i]:.2e}) predicts {preds[i].get(key,0.0):.10g}, grid-independent truth {t:.10g}: |diff|/S = {e/max(S,1e-300):.2e} > K eps = {K[o]*epss[i]:.2e}",
                                 detail=dict(eps=epss, errors=[e_ for e_, _ in errs], truth=t)))  # fmt: skip
            else:
                margin = max(margin, mg)
        # (ii) monotone improvement
        for i, j in zip(adequate[:-1], adequate[1:]):
            (e1, S1), (e2, S2) = errs[i], errs[j]
            if epss[j] <= epss[i] / 10.0 and e1 > 30 * FLOOR * S1:
                compared += 1
                classes.add("monotone")
                # the error at one x is not proportional to the worst interpolation residual on [x,1) (measured: 20x better grids
                # improving the prediction by 1.5x only), so only a *deterioration* under refinement is a violation
                # ... and only when the refined grid's error is a sizeable part (>10%) of what its interpolation accuracy allows: a coarse
                # grid can be accurate by accident (measured: 2e-4 -> 7e-4 of S with both far inside K*eps)
                if not e2 <= 2.0 * e1 + 3 * FLOOR * S2 + 5.0 * Es[j].get(key, 0.0) and e2 > max(0.1 * K[o], 1.5) * epss[j] * S2:  # (at LO the error is the interpolation residual at one point: anything up to ~eps is what the grid promises, however lucky the coarser grid was)
                    viol.append(dict(sig=f"refinement-worse|{case['kind']}|o{o}", what=f"{name} order {o} x={x:.5g}: interpolation error fell {epss[i]:.1e} -> {epss[j]:.1e} but the prediction error grew {e1/S1:.2e} -> {e2/S2:.2e} (of S)"))
    # (iii) SV keys on the two finest adequate grids
    if len(adequate) >= 2:
        i, j = adequate[-2], adequate[-1]
        for key in preds[j]:
            if key[2] == 0 and key[3] == 0:
                continue
            S = max(Ss[i].get(key, 0.0), Ss[j].get(key, 0.0))
            d = abs(preds[i].get(key, 0.0) - preds[j][key])
            bound = K[min(key[0], 2)] * max(epss[i], epss[j]) * S + FLOOR * S
            compared += 1
            classes.add("sv-agree")
            if S > 0:
                nontrivial.add(f"{cellb}|sv|{case['xcls']}")
            if d > bound:
                viol.append(dict(sig=f"refinement-sv|{case['kind']}|{run.key(key)}", what=f"{name} key {run.key(key)} x={x:.5g}: the two finest grids give {preds[i].get(key,0.0):.10g} and {preds[j][key]:.10g}: |diff|/S = {d/max(S,1e-300):.2e} > {bound/max(S,1e-300):.2e}"))
            else:
                margin = max(margin, d / max(bound, 1e-300))
    # (vi) twin grid: same size, end points, degree and log mode as the finest grid, other interior nodes - run right after it in
    # the same process; every key (SV keys included) must agree within the interpolation accuracy of the two
    gs = case["family"][-1]
    xg_f = cards.grid(gs["n_low"], gs["n_mid"], x_min=min(1e-4, x / 5), kind=gs["kind"])
    xg_w = cards.warp_grid(xg_f)
    ob_w = cards.observables({name: [dict(x=x, Q2=Q2)]}, xgrid=xg_w, deg=gs["deg"], prDIS=case["proc"], ProjectileDIS=case["proj"], is_log=case.get("is_log", True))
    res_w = yad.run_yadism(th, ob_w)[name][0]
    fm_w = np.array([[pdf.f(pid, xj) for xj in xg_w] for pid in cards.PIDS])
    eps_w = interp_error(run.interpolator(ob_w), xg_w, pdf, x)
    if epss[-1] <= 1e-2 and eps_w <= 1e-2:
        classes.add("twin-grid")
        for key, v in res_w.orders.items():
            pw = float(np.sum(np.asarray(v[0]) * fm_w))
            S = max(Ss[-1].get(key, 0.0), float(np.sum(np.abs(np.asarray(v[0]) * fm_w))))
            E = Es[-1].get(key, 0.0) + float(np.sum(np.abs(np.asarray(v[1]) * fm_w)))
            d = abs(pw - preds[-1].get(key, 0.0))
            bound = K[min(key[0], 2)] * (epss[-1] + eps_w) * S + FLOOR * S + 5.0 * E
            compared += 1
            if S > 0:
                nontrivial.add(f"{cellb}|twin|{case['xcls']}")
            if d > bound:
                viol.append(dict(sig=f"refinement-twin|{case['kind']}|{run.key(key)}", what=f"{name} key {run.key(key)} x={x:.5g}: the finest grid and its twin (same size, end points and degree, other interior nodes; interpolation errors {epss[-1]:.1e}, {eps_w:.1e}) predict {preds[-1].get(key,0.0):.10g} and {pw:.10g}: |diff|/S = {d/max(S,1e-300):.2e} > {bound/max(S,1e-300):.2e}"))
            else:
                margin = max(margin, d / max(bound, 1e-300))
    # (iv) node continuity on the finest grid
    gs = case["family"][-1]
    xg = cards.grid(gs["n_low"], gs["n_mid"], x_min=min(1e-4, x / 5), kind=gs["kind"])
    kn = int(np.argmin(np.abs(np.log(np.array(xg[:-1])) - np.log(x))))
    xn = xg[kn]
    ob = cards.observables({name: [dict(x=xn, Q2=Q2), dict(x=xn * (1 + 1e-9), Q2=Q2), dict(x=xn * (1 - 1e-9), Q2=Q2)]}, xgrid=xg, deg=gs["deg"], prDIS=case["proc"], ProjectileDIS=case["proj"], is_log=case.get("is_log", True))
    out = yad.run_yadism(th, ob)
    fmat = np.array([[pdf.f(pid, xj) for xj in xg] for pid in cards.PIDS])
    # round-off of the basis itself next to this node (eko evaluates its Lagrange polynomials in monomial form: on dense high-degree
    # grids at low x the noise reaches 1e-6..1e-5): |sum_j f(x_j) p_j(u) - f(u)| / |f(u)| at points 1e-8..1e-7 off the node, where the
    # genuine interpolation error is far below 1e-9; ten times that is allowed on top of the calibrated node tolerance
    interp_n = run.interpolator(ob)
    basis_noise = 0.0
    for du in (-1e-7, -1e-8, 1e-8, 1e-7):
        u_ = xn * (1.0 + du)
        if not xg[0] < u_ < 1.0:
            continue
        bu_ = run.basis_at(interp_n, float(u_))
        for ip_, pid in enumerate(cards.PIDS):
            ex_ = pdf.f(pid, float(u_))
            if ex_ != 0.0:
                basis_noise = max(basis_noise, abs(float(fmat[ip_] @ bu_) - ex_) / abs(ex_))
    classes.add("on-node")
    for key in out[name][0].orders:
        vals = [float(np.sum(np.asarray(r.orders[key][0]) * fmat)) for r in out[name]]
        S = float(np.sum(np.abs(np.asarray(out[name][0].orders[key][0]) * fmat)))
        # the code's own quadrature error estimate, contracted the same way (measured: the NNLO entries carry ~1e-5 relative
        # integration error and two convolution points 1e-9 apart differ by about that much, in yadism and in yadmon.quad alike)
        E = sum(float(np.sum(np.abs(np.asarray(r.orders[key][1]) * fmat))) for r in out[name])
        compared += 2
        classes.add("node-continuity")
        if S > 0:
            nontrivial.add(f"{cellb}|{case['xcls']}|node")
        for v_, lab in ((vals[1], "+"), (vals[2], "-")):
            if abs(v_ - vals[0]) > (NODE_TOL[min(key[0], 2)] + 10.0 * basis_noise) * S + 5.0 * E + 1e-300:
                viol.append(dict(sig=f"node-discontinuity|{case['kind']}|o{key[0]}", what=f"{name} key {run.key(key)}: prediction at the node x={xn!r} is {vals[0]:.12g} but {v_:.12g} at x(1{lab}1e-9): jump {abs(v_-vals[0])/max(S,1e-300):.2e} of S"))
            else:
                margin = max(margin, abs(v_ - vals[0]) / (NODE_TOL[min(key[0], 2)] * S + 5.0 * E + 1e-300))
    sample = dict(obs=name, process=case["proc"], scheme=case["scheme"], x=x, Q2=Q2, grids=[f"{g['n_low']}+{g['n_mid']}/deg{g['deg']}/{g['kind']}" for g in case["family"]], by_order=rows)
    return dict(violations=viol, compared=compared, nontrivial=sorted(nontrivial), classes=sorted(classes), margin=margin, probes=probes, sample=sample)
