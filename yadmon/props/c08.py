"""C08 - FFN0 is the high-virtuality limit of FFNS: trajectory monitor over pairs of runs along Q2/m2 scans."""
import numpy as np

from .. import cards, pdfs, run

PROP = "C08"
LEVEL = "exploration"
RULE = (
    "bounded restatement of the limit: for single-massive-quark configurations (FONLL-FFNS vs FONLL-FFN0 with NfFF=3 (charm) or 4 "
    "(bottom), PTO=PTODIS so that every logarithmic tower is present) a scan xi=Q2/m2 in {1e2,1e3,1e4,1e5,1e6} at fixed x is run in both "
    "schemes; per order k the normalised difference D_k/N_k (entrywise max over the (k,0,0,0) tensor, and contracted with a smooth PDF; "
    "N_k = max|FFNS_k| + max|FFN0_k| + LO parton-model size) must satisfy D_k/N_k <= K ln^2(xi)/xi for xi >= 1e3 and must have dropped by "
    ">= 30 between xi=1e2 and 1e5. Kinds: NC F2, FL (orders 0..2), g1 (xi <= 1e3 where the massive library answers), CC F2, FL, F3 (orders 0..1); "
    "observables <kind>_<flavour> (gluon, singlet, intrinsic channels) and <kind>_light (non-singlet 'missing' channel). "
    "Distinct = (kind, process, flavour, heavyness, order, x class); non-trivial = the massive tensor of that order is non-zero at xi=1e2."
)
ASSUMPTIONS = ["no finite run decides a limit: the decay is required on xi in [1e2,1e6] only", "K=20 (entrywise 60): calibrated on the pinned tree, see DESIGN.md C08",
               "quadrature noise (1e-6..1e-5 relative) sets the floor at the largest xi"]  # fmt: skip
XIS = [1e2, 1e3, 1e4, 1e5, 1e6]
K_CONTRACTED, K_ENTRY = 20.0, 60.0
FLOOR = 3e-5  # quadrature floor relative to N_k


def budget(tier):
    return 290 if tier == "quick" else 1700


def floor(tier):
    return dict(min_conclusive=30 if tier == "quick" else 150, min_nontrivial=20 if tier == "quick" else 40, classes=["NC", "CC", "charm", "bottom", "o0", "o1", "o2"], min_compared=60)


def cases(tier, rng):
    out = []
    n = 48 if tier == "quick" else 600
    # anchors: the three open findings are reached in every run (F-14 g1 heavy, F-21 g1 light, F-24 F2 light at very low x)
    for k, (kind_, heavy_, x_) in enumerate((("g1", "charm", 0.05), ("g1", "light", 0.05), ("F2", "light", 6e-4))):
        out.append(dict(id=f"c08-a{k}", kind=kind_, proc="NC", flavour="charm", heavy=heavy_, pto=2, m=1.4, x=x_, proj="electron",
                        pdf=pdfs.SmoothPDF.random(rng), two=False, mtop=170.0, timeout=900))  # fmt: skip
    combos = [("F2", "NC"), ("FL", "NC"), ("F2", "EM"), ("F2", "CC"), ("FL", "CC"), ("F3", "CC"), ("g1", "NC"), ("FL", "EM")]
    for i in range(n):
        kind, proc = combos[i % len(combos)]
        flavour = "charm" if i % 3 else "bottom"
        pto = (1 if proc == "CC" else 2) if kind != "g1" else 2
        if tier == "quick" and (i // len(combos)) % 3 == 2 and proc != "CC":
            pto = 1
        heavy = flavour if (i // len(combos)) % 2 == 0 or proc == "CC" else "light"
        m = float(rng.uniform(1.2, 1.8)) if flavour == "charm" else float(rng.uniform(4.0, 5.0))
        x = float(cards.pick(rng, [cards.logu(rng, 2e-3, 0.05), float(rng.uniform(0.05, 0.5)), cards.logu(rng, 1e-4, 2e-3)]))
        # two massive quarks at once (plain FFNS/FFN0, NfFF=4 with an artificially light 'top' just above the bottom): the sum over
        # heavy quarks in <kind>_total must converge too; Q2/m2 then refers to the heavier of the two
        two = bool(i % 6 == 5)
        if two:
            kind, proc = ("F2" if (i // 6) % 3 else "FL"), cards.pick(rng, ["NC", "EM"])
            pto = 2 if (i // 6) % 2 else 1
            flavour, heavy = "bottom", "total"
            m = float(rng.uniform(4.0, 5.0))
        out.append(dict(id=f"c08-{i}", kind=kind, proc=proc, flavour=flavour, heavy=heavy, pto=pto, m=m, x=x,
                        proj=cards.pick(rng, ["neutrino", "antineutrino"]) if proc == "CC" else "electron", pdf=pdfs.SmoothPDF.random(rng), two=two,
                        mtop=float(m * rng.uniform(1.3, 2.2)), timeout=900))  # fmt: skip
    return out


def run_case(case):
    kind, flavour = case["kind"], case["flavour"]
    nfff = 3 if flavour == "charm" else 4
    m = case["m"]
    mk = "mc" if flavour == "charm" else "mb"
    base = dict(PTO=case["pto"], NfFF=nfff, mc=1.4, mb=4.6, mt=172.0)
    base[mk] = m
    name = f"{kind}_{case['heavy']}"
    schemes = ("FONLL-FFNS", "FONLL-FFN0")
    if case.get("two"):
        schemes = ("FFNS", "FFN0")
        base["mt"] = case["mtop"]
        m = case["mtop"]  # the scan variable is Q2/m2 of the heavier massive quark
    xg = cards.grid(10, 7, x_min=3e-5)
    xis = [xi for xi in XIS if not (kind == "g1" and xi > 1e3)]
    if kind == "g1":
        xis = [1e2, 3e2, 1e3]
    pts = [dict(x=case["x"], Q2=xi * m * m) for xi in xis]
    ob = cards.observables({name: pts, f"F2_{case['heavy']}": pts}, xgrid=xg, deg=3, prDIS=case["proc"], ProjectileDIS=case["proj"])
    outs = {}
    for sch in schemes:
        outs[sch] = run.run(cards.theory(FNS=sch, **base), ob)
    pdf = pdfs.make(case["pdf"])
    fmat = np.array([[pdf.f(pid, xj) for xj in xg] for pid in cards.PIDS])
    viol, nontrivial, classes = [], set(), {case["proc"] if case["proc"] != "EM" else "NC", flavour}
    xc = "vlowx" if case["x"] < 3e-3 else ("lowx" if case["x"] < 0.05 else "midx")
    compared, margin = 0, 0.0
    traj = {}
    # LO parton-model size for normalisation (F2 of the same heavyness, massless scheme part)
    for o in range(case["pto"] + 1):
        key = (o, 0, 0, 0)
        ent, con = [], []
        for i, xi in enumerate(xis):
            a = np.asarray(outs[schemes[0]][name][i].orders[key][0])
            b = np.asarray(outs[schemes[1]][name][i].orders[key][0])
            n0 = max(run.absmax(outs[schemes[1]][f"F2_{case['heavy']}"][i].orders[(0, 0, 0, 0)][0]), case["x"] * 0.1)
            N = run.absmax(a) + run.absmax(b) + n0
            ent.append(run.absmax(a - b) / N)
            Nc = float(np.sum(np.abs(a * fmat))) + float(np.sum(np.abs(b * fmat))) + n0 * float(np.max(np.abs(fmat)))
            con.append(abs(float(np.sum((a - b) * fmat))) / Nc)
            if i == 0 and run.absmax(a) > 0:
                nontrivial.add(f"{kind}|{case['proc']}|{flavour}|{case['heavy']}|o{o}|{'vlowx' if case['x'] < 3e-3 else ('lowx' if case['x'] < 0.05 else 'midx')}")
        traj[o] = dict(entry=ent, contracted=con)
        classes.add(f"o{o}")
        for label, seq, K in (("entrywise", ent, K_ENTRY), ("contracted", con, K_CONTRACTED)):
            for xi, d in zip(xis, seq):
                if xi < 1e3:
                    continue
                bound = K * np.log(xi) ** 2 / xi + FLOOR
                compared += 1
                mg = d / bound
                if mg > 1:
                    viol.append(dict(sig=f"no-decay|{kind}|{case['proc']}|{case['heavy'] if case['heavy']=='light' else 'heavy'}|o{o}|{xc}|xi{xi:g}", what=f"{name} {case['proc']} order {o} x={case['x']:.4g} m={m:.4g}: {label} |FFNS-FFN0|/N = {d:.3g} at Q2/m2={xi:g} exceeds {K:g} ln^2(xi)/xi = {bound:.3g}; trajectory {['%.2e' % v for v in seq]} over xi={xis}",
                                     detail=dict(trajectory=seq, xis=xis)))  # fmt: skip
                    break
                margin = max(margin, mg)
            # decade by decade: a power-like fall-off shrinks the difference by ~10 per decade; demand at least 2 (unless at the floor)
            # (orders 0 and 1 only: the massive O(a_s^2) coefficients are LeProHQ's approximate ones, which wobble by a few per cent
            # around Q2/m2 ~ 1e3 before they fall - measured 3.5e-2 -> 4.5e-2 -> 8e-4 - and are judged by the global criteria below)
            if kind != "g1" and o <= 1:
                for (xa, da), (xb, db) in zip(list(zip(xis, seq))[:-1], list(zip(xis, seq))[1:]):
                    if xa < 1e3:
                        # (the first decade is not yet asymptotic at large x: measured 1.72e-2 -> 8.64e-3 for F2_bottom at x = 0.49, then
                        # 10x per decade; it is judged by the K ln^2(xi)/xi bound and the overall drop only)
                        continue
                    if da > 100 * FLOOR:
                        compared += 1
                        if not db <= da / 2.0 + FLOOR:
                            viol.append(dict(sig=f"no-decay-decade|{kind}|{case['proc']}|{case['heavy'] if case['heavy']=='light' else 'heavy'}|o{o}|{xc}|xi{xb:g}", what=f"{name} {case['proc']} order {o} x={case['x']:.4g} m={m:.4g}: {label} |FFNS-FFN0|/N goes {da:.3g} -> {db:.3g} between Q2/m2={xa:g} and {xb:g} (trajectory {['%.2e' % v for v in seq]})"))
                            break
            if len(seq) == 5 and seq[0] > 30 * FLOOR:
                compared += 1
                if not seq[3] <= seq[0] / 30.0 + FLOOR:
                    viol.append(dict(sig=f"no-decay-ratio|{kind}|{case['proc']}|{case['heavy'] if case['heavy']=='light' else 'heavy'}|o{o}|{xc}", what=f"{name} {case['proc']} order {o}: {label} difference went from {seq[0]:.3g} (xi=1e2) to {seq[3]:.3g} (xi=1e5): drop < 30"))
            if kind == "g1" and len(seq) == 3 and seq[0] > 30 * FLOOR:
                compared += 1
                # bounded form on the reachable range: a decade in xi must shrink the difference by >= 3
                if not seq[2] <= seq[0] / 3.0 + FLOOR:
                    viol.append(dict(sig=f"no-decay-ratio|g1|{case['proc']}|{case['heavy'] if case['heavy']=='light' else 'heavy'}|o{o}|{xc}", what=f"{name} order {o}: {label} difference {seq[0]:.3g} at xi=1e2 -> {seq[2]:.3g} at xi=1e3: drop < 3 (trajectory {['%.2e' % v for v in seq]})"))
    sample = dict(obs=name, process=case["proc"], m=m, x=case["x"], xis=xis, trajectories={str(o): {k: ["%.2e" % v for v in t[k]] for k in t} for o, t in traj.items()})
    return dict(violations=viol, compared=compared, nontrivial=sorted(nontrivial), classes=sorted(classes), margin=margin, sample=sample)
