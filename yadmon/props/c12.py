"""C12 - nuclear target = isospin rotation of u and d: pairs of runs differing only in TargetDIS."""
import zlib

import numpy as np

from .. import cards, run

PROP = "C12"
LEVEL = "exploration"
RULE = (
    "pairs (proton run, target run) over seeded configuration cells (all schemes incl. FFN0/FONLL-FFN0 at PTO=PTO_evol>=1, "
    "all processes, kinds, heavynesses, SV keys): for every order key the target operator must equal the proton operator with "
    "rows u,d (and ubar,dbar) mixed by (Z,A) and all other rows unchanged (rtol 1e-10); named targets must be bit-identical to "
    "the explicit {Z,A} of an independent copy of the documented table. Targets: random real 0<=Z<=A, Z=0, Z=A, the seven names. "
    "Distinct = (kind, heavyness, process, scheme, PTO, target class); non-trivial = the u and d rows of the proton operator differ "
    "(so the rotation is observable) for at least one order."
)
ASSUMPTIONS = ["documented (Z,A): proton(1,1) neutron(0,1) isoscalar(1,2) iron(23.403,49.618) lead(82,208) neon(10,20) marble(10,20)"]
RTOL = 1e-10  # re-association noise is relative to the sum of |kernel terms|, which can exceed the result by 1e2 (thorough: margin 0.7 at 1e-12)
TABLE = {
    "proton": (1.0, 1.0), "neutron": (0.0, 1.0), "isoscalar": (1.0, 2.0), "iron": (23.403, 49.618),
    "lead": (82.0, 208.0), "neon": (10.0, 20.0), "marble": (10.0, 20.0),
}  # fmt: skip


def budget(tier):
    return 240 if tier == "quick" else 1500


def floor(tier):
    return dict(min_conclusive=40 if tier == "quick" else 600, min_nontrivial=25 if tier == "quick" else 200,
                classes=["named", "real", "Z=0", "Z=A", "FFN0"], min_compared=1000)  # fmt: skip


def cases(tier, rng):
    n = 80 if tier == "quick" else 8000
    out = []
    # anchors: asymptotic schemes at PTO = PTO_evol >= 1 with genuinely mixing targets (several kernels per flavour there)
    k = 0
    for scheme in ("FFN0", "FONLL-FFN0"):
        for kind in ("F2", "FL", "g1", "F3"):
            for heavy in ("total", "light"):
                for pto in (1, 2):
                    a = float(rng.uniform(2, 60))
                    target = cards.pick(rng, ["iron", "lead", {"Z": float(rng.uniform(0.05, 0.45)) * a, "A": a}, "neutron"])
                    g = cards.rand_grid(rng)
                    out.append(dict(id=f"c12-a{k}", kind=kind, heavy=heavy, tclass="named" if isinstance(target, str) else "real", target=target, grid=g,
                                    points=cards.rand_points(rng, g["xgrid"], n=1, q2lo=10.0, q2hi=1e3),
                                    theory=dict(PTO=pto, FNS=scheme, NfFF=int(rng.integers(3, 6)), RenScaleVar=False, FactScaleVar=bool(pto == 1)),
                                    obs=dict(prDIS=cards.pick(rng, ["NC", "EM"]), ProjectileDIS="electron"), kinds=[kind]))  # fmt: skip
                    k += 1
    for i in range(n):
        ptos = (0, 1, 1, 2) if tier == "quick" else (0, 1, 1, 2, 2, 3)
        schemes = ["FFN0", "FONLL-FFN0"] if i % 4 == 0 else None
        cfg = cards.rand_config(rng, ptos=(1, 2) if schemes else ptos, schemes=schemes, sv=True)
        g = cards.rand_grid(rng)
        kind = cards.pick(rng, cfg["kinds"])
        if rng.random() < 0.15:
            kind = cards.pick(rng, ["XSHERANC", "XSHERACC", "XSCHORUSCC", "F1", "FW", "XSNUTEVNU"])  # cross sections are linear in the SFs
        heavy = cards.pick(rng, ["total", "total", "light", "charm", "bottom"])
        tc = cards.pick(rng, ["named", "real", "real", "Z=0", "Z=A"])
        if tc == "named":
            target = cards.pick(rng, cards.TARGETS)
        elif tc == "real":
            a = float(rng.uniform(1, 240))
            target = {"Z": float(rng.uniform(0, a)), "A": a}
        elif tc == "Z=0":
            target = {"Z": 0.0, "A": float(rng.uniform(1, 10))}
        else:
            a = float(rng.uniform(1, 10))
            target = {"Z": a, "A": a}
        pts = cards.rand_points(rng, g["xgrid"], n=2, q2lo=3.0, q2hi=3e3)
        if i % 3 == 1:
            # the massless-only / massive-only parts of a result are rotated like the full one (the switch is read in every scheme)
            cfg["theory"]["FONLLParts"] = cards.pick(rng, ["massive", "massless", "massive"])
            if cfg["theory"]["FONLLParts"] == "massive" and rng.random() < 0.6:
                heavy = cards.pick(rng, ["total", "charm", "bottom"])
        out.append(dict(id=f"c12-{i}", kind=kind, heavy=heavy, tclass=tc, target=target, grid=g, points=pts, **cfg))
    return out


def rotate(v, Z, A):
    """Expected operator for target (Z,A) from the proton operator v[pid,j]."""
    e = np.array(v, dtype=float, copy=True)
    s = np.abs(np.array(v, dtype=float))
    for sg in (1, -1):
        iu, idn = run.pid_index(2 * sg), run.pid_index(1 * sg)
        e[iu] = (Z * v[iu] + (A - Z) * v[idn]) / A
        e[idn] = (Z * v[idn] + (A - Z) * v[iu]) / A
        s[iu] = s[idn] = np.abs(v[iu]) + np.abs(v[idn])
    return e, s


def run_case(case):
    th = cards.theory(**case["theory"])
    g = case["grid"]
    name = f"{case['kind']}_{case['heavy']}"
    pts = [dict(x=p["x"], Q2=p["Q2"], **({"y": 0.37} if case["kind"] in cards.XSS else {})) for p in case["points"]]

    def mkobs(target):
        o = dict(case["obs"])
        o["TargetDIS"] = target
        return cards.observables({name: pts}, xgrid=g["xgrid"], deg=g["deg"], is_log=g["is_log"], **o)

    target = case["target"]
    if isinstance(target, dict) and zlib.crc32(case["id"].encode()) % 2:
        # a mapping has no order: cards that went through yaml.dump (sorted keys) list A before Z
        target = {"A": target["A"], "Z": target["Z"]}
    outp = run.run(th, mkobs("proton"))
    outt = run.run(th, mkobs(target))
    Z, A = TABLE[target] if isinstance(target, str) else (target["Z"], target["A"])
    viol, nontrivial = [], set()
    classes = {case["tclass"]}
    if "FFN0" in th["FNS"]:
        classes.add("FFN0")
    compared, margin, sample = 0, 0.0, None
    cell = f"{case['kind']}|{case['heavy']}|{case['obs']['prDIS']}|{th['FNS']}|pto{th['PTODIS']}|{case['tclass']}"
    if isinstance(target, str):
        oute = run.run(th, mkobs({"Z": Z, "A": A}))
        for i, p in enumerate(pts):
            eq, why = run.same_bits(outt[name][i], oute[name][i])
            compared += 1
            if not eq:
                viol.append(dict(sig=f"named-target|{target}", what=f"TargetDIS='{target}' differs from explicit Z={Z}, A={A}: {why}"))
    for i, p in enumerate(pts):
        a, b = outp[name][i], outt[name][i]
        if list(a.orders) != list(b.orders):
            viol.append(dict(sig="target-order-keys", what=f"order keys differ between proton and target run: {list(a.orders)} vs {list(b.orders)}"))
            continue
        for o in a.orders:
            vp, vt = np.asarray(a.orders[o][0]), np.asarray(b.orders[o][0])
            exp, sc = rotate(vp, Z, A)
            smax = max(run.absmax(vp), 1e-300)
            m, d = run.cmp(vt, exp, np.maximum(sc, 0) + 0 * smax if False else smax, RTOL)
            compared += vt.size
            iu, idn = run.pid_index(2), run.pid_index(1)
            observable = (not np.array_equal(vp[iu], vp[idn])) or (not np.array_equal(vp[run.pid_index(-2)], vp[run.pid_index(-1)]))
            if observable and not (Z == A):
                nontrivial.add(cell)
            if m > 1.0:
                bad = np.unravel_index(np.argmax(np.abs(vt - exp)), vt.shape)
                viol.append(dict(sig=f"isospin|{case['obs']['prDIS']}|{'asy' if 'FFN0' in th['FNS'] else 'std'}|pto{o[0]}",
                                 what=f"{name} target Z={Z:.6g} A={A:.6g} {th['FNS']} PTO={th['PTODIS']} order {run.key(o)} x={p['x']:.6g} Q2={p['Q2']:.6g}: row pid={cards.PIDS[bad[0]]} node {int(bad[1])} observed {vt[bad]:.12g} expected {exp[bad]:.12g} (max dev/scale {d/smax:.3g})",
                                 detail=dict(point=p, order=list(o), margin=m)))  # fmt: skip
            else:
                margin = max(margin, m)
                if sample is None and observable and Z != A:
                    sample = dict(obs=name, target=target, Z=Z, A=A, order=list(o), x=p["x"], Q2=p["Q2"], u_row_obs=float(vt[iu].max()), u_row_exp=float(exp[iu].max()))
    return dict(violations=viol, compared=compared, nontrivial=sorted(nontrivial), classes=sorted(classes), margin=margin, sample=sample)
