"""C04 - massless coefficient functions obey sum rules and NLO closed forms (reference model on the real RSL objects)."""
import numpy as np

from .. import cards, quad, run

PROP = "C04"
LEVEL = "exploration"
RULE = (
    "the RSL objects returned by the real light partonic-channel classes (NC and CC even/odd) are probed with facts written "
    "independently: (adler) first moment of the nu-nubar F2 non-singlet coefficient = delta_k0, orders 0..3; (gls) first moment of "
    "the F3 non-singlet coefficient = 1, -4, 16(-55/12+nf/3), 64(-41.4399+7.6073nf-0.17747nf^2), plus the N3LO valence piece "
    "64 nf (10/3)(-11/144+zeta3/6); (bjorken) g1 non-singlet orders 0..2 equal to the same series; (closed) NLO quark and gluon "
    "coefficients of F2, FL, F3, g1: reg+sing compared pointwise on random z with the textbook expressions and Mellin moments at "
    "random real N (which fixes the delta term) - nf 3..6. Distinct = (fact, class, order, nf); non-trivial = a non-zero expected value was compared."
)
ASSUMPTIONS = ["published constants: Larin-Vermaseren GLS/Bjorken series; parametrised NNLO/N3LO coefficient functions judged at 5x the residual of the intact parametrisations (1e-4 / 2e-5 of sum|pieces|, 7e-4 for the valence piece)",
               "a typo below parametrisation accuracy in a sub-dominant constant is invisible to sum rules"]  # fmt: skip
CF, TR, Z2, Z3 = 4.0 / 3.0, 0.5, np.pi**2 / 6.0, 1.2020569031595942


def budget(tier):
    return 200 if tier == "quick" else 900


def floor(tier):
    return dict(min_conclusive=40, min_nontrivial=40, classes=["adler", "gls", "bjorken", "closed"], min_compared=200)


def cases(tier, rng):
    out = []
    k = 0
    nN = 3 if tier == "quick" else 40
    nz = 12 if tier == "quick" else 200
    for nf in (3, 4, 5, 6):
        for fact, targets in (
            ("adler", [("f2_cc", "NonSingletOdd")]),
            ("gls", [("f3_nc", "NonSinglet"), ("f3_cc", "NonSingletOdd"), ("f3_nc", "Valence"), ("f3_cc", "Valence")]),  # (the CC 'even' combination has no N=1 sum rule)
            ("bjorken", [("g1_nc", "NonSinglet")]),
            ("closed", [("f2_nc", "NonSinglet"), ("f2_nc", "Gluon"), ("fl_nc", "NonSinglet"), ("fl_nc", "Gluon"), ("f3_nc", "NonSinglet"), ("g1_nc", "NonSinglet"),
                        ("g1_nc", "Gluon"), ("f2_cc", "NonSingletEven"), ("f2_cc", "NonSingletOdd"), ("f2_cc", "Gluon"), ("fl_cc", "NonSingletEven"), ("fl_cc", "NonSingletOdd"),
                        ("fl_cc", "Gluon"), ("f3_cc", "NonSingletEven"), ("f3_cc", "NonSingletOdd")]),
        ):  # fmt: skip
            for mod, cls in targets:
                out.append(dict(id=f"c04-{k}", fact=fact, module=mod, cls=cls, nf=nf, Ns=[1.0, 2.0] + [float(rng.uniform(1.2, 12.0)) for _ in range(nN)],
                                zs=[float(z) for z in np.concatenate([rng.uniform(0.001, 0.999, nz), 1 - np.geomspace(1e-6, 1e-2, 4), np.geomspace(1e-6, 1e-3, 4)])]))  # fmt: skip
                k += 1
    return out


class Dist:
    """Textbook distribution: reg(z) + sum_k c_k [ln^k(1-z)/(1-z)]_+ + delta * delta(1-z), in RSL clothing for quad.moment."""

    def __init__(self, reg, coeffs, delta):
        self.reg = lambda z, a: reg(z)
        self.cs = coeffs
        self.sing = (lambda z, a: sum(c * np.log(1 - z) ** k / (1 - z) for k, c in enumerate(coeffs))) if coeffs else None
        self.loc = lambda x, a: delta + sum(c * np.log(1 - x) ** (k + 1) / (k + 1) for k, c in enumerate(coeffs))
        self.args = dict(reg=None, sing=None, loc=None)

    def away(self, z):
        return self.reg(z, None) + (self.sing(z, None) if self.sing else 0.0)


def textbook(module, cls, nf):
    """NLO closed forms, a_s = alpha_s/(4 pi)."""
    kind = module.split("_")[0]
    if cls.startswith("NonSinglet"):
        if kind == "fl":
            return Dist(lambda z: 4 * CF * z, [], 0.0)
        c2 = lambda z: CF * (-2 * (1 + z) * np.log(1 - z) - 2 * (1 + z * z) / (1 - z) * np.log(z) + 6 + 4 * z)  # noqa: E731
        coeffs, delta = [-3 * CF, 4 * CF], -CF * (4 * Z2 + 9)
        if kind == "f2":
            return Dist(c2, coeffs, delta)
        if kind in ("f3", "g1"):
            return Dist(lambda z: c2(z) - 2 * CF * (1 + z), coeffs, delta)
    if cls == "Gluon":
        if kind == "f2":
            return Dist(lambda z: 4 * nf * TR * ((z * z + (1 - z) ** 2) * np.log((1 - z) / z) - 1 + 8 * z * (1 - z)), [], 0.0)
        if kind == "fl":
            return Dist(lambda z: 16 * nf * TR * z * (1 - z), [], 0.0)
        if kind == "g1":
            return Dist(lambda z: 4 * nf * TR * ((2 * z - 1) * (np.log((1 - z) / z) - 1) + 2 * (1 - z)), [], 0.0)
    return None


def away(rsl, z):
    r = 0.0
    if rsl.reg is not None:
        r += rsl.reg(z, rsl.args["reg"])
    if rsl.sing is not None:
        r += rsl.sing(z, rsl.args["sing"])
    return r


def moment_pieces(rsl, N):
    """(moment, sum of |pieces|)"""
    m = quad.moment(rsl, N)
    s = 0.0
    import scipy.integrate as si

    if rsl.reg is not None:
        s += abs(si.quad(lambda z: abs(rsl.reg(min(z, quad.ONE_MINUS), rsl.args["reg"])) * z ** (N - 1), 0, 1, limit=200)[0])
    if rsl.sing is not None:
        s += abs(si.quad(lambda z: abs(rsl.sing(min(z, quad.ONE_MINUS), rsl.args["sing"]) * (z ** (N - 1) - 1)), 0, 1, limit=200)[0])
    if rsl.loc is not None:
        s += abs(rsl.loc(0.0, rsl.args["loc"]))
    return m, s


def run_case(case):
    run.yad()
    import importlib

    m = importlib.import_module(f"yadism.coefficient_functions.light.{case['module']}")
    cls = getattr(m, case["cls"], None)
    if cls is None:
        return dict(status="inconclusive", reason=f"probe-missing:{case['module']}.{case['cls']}")

    class E:
        x, Q2 = 0.1, 10.0

    inst = cls(E(), case["nf"])
    nf = case["nf"]
    fact = case["fact"]
    viol, nontrivial = [], set()
    compared, margin, sample = 0, 0.0, None
    label = f"light.{case['module']}.{case['cls']}"

    def judge(obs, exp, scale, tol, what, sig, key):
        nonlocal compared, margin, sample
        mg, d = run.cmp(obs, exp, scale, tol, 1e-13)
        compared += 1
        nontrivial.add(key)
        if mg > 1:
            viol.append(dict(sig=sig, what=f"{label} nf={nf}: {what}: observed {obs:.10g}, expected {exp:.10g} (|diff| {d:.3g}, scale {scale:.3g}, tol {tol:g})"))
        else:
            margin = max(margin, mg)
            if sample is None:
                sample = dict(target=label, nf=nf, fact=what, observed=float(obs), expected=float(exp))

    # parametrised orders: 5x the residual the intact parametrisations exhibit against the exact series (measured over nf 3..6:
    # NNLO <= 9.2e-3 on sum|pieces| 458, N3LO <= 7.3e-2 on 1.8e4, N3LO valence 3.6e-2 on 271); a seeded swap of the even/odd NNLO
    # function moves the Bjorken moment by 0.12
    PAR = {0: 1e-12, 1: 1e-10, 2: 1e-4, 3: 2e-5}
    if case["cls"] == "Valence":
        PAR[3] = 7e-4
    if fact in ("adler", "gls", "bjorken"):
        series = {0: 1.0, 1: -4.0, 2: 16.0 * (-55.0 / 12.0 + nf / 3.0), 3: 64.0 * (-41.4399 + 7.6073 * nf - 0.17747 * nf * nf)}
        if fact == "adler":
            series = {0: 1.0, 1: 0.0, 2: 0.0, 3: 0.0}
        if case["cls"] == "Valence":
            series = {3: 64.0 * nf * (10.0 / 3.0) * (-11.0 / 144.0 + Z3 / 6.0)}
        for o in range(0, 3 if fact == "bjorken" else 4):
            rsl = inst[o]()
            if o not in series:
                compared += 1
                if rsl is not None and (rsl.reg or rsl.sing or rsl.loc):
                    mom, s = moment_pieces(rsl, 1.0)
                    judge(mom, 0.0, s, PAR[o], f"first moment at order {o}", f"{fact}|{label}|o{o}", f"{fact}|{label}|o{o}|nf{nf}")
                continue
            if rsl is None:
                viol.append(dict(sig=f"{fact}-missing|{label}|o{o}", what=f"{label}: order {o} coefficient missing, {fact} series expects first moment {series[o]:.6g}"))
                continue
            mom, s = moment_pieces(rsl, 1.0)
            judge(mom, series[o], max(s, abs(series[o])), PAR[o], f"{fact} sum rule: first moment at order a_s^{o}", f"{fact}|{label}|o{o}", f"{fact}|{label}|o{o}|nf{nf}")
    else:
        tb = textbook(case["module"], case["cls"], nf)
        rsl = inst[1]()
        if tb is None or rsl is None:
            return dict(status="inconclusive", reason="no-closed-form-or-no-NLO", compared=0)
        for z in case["zs"]:
            a, b = away(rsl, z), tb.away(z)
            sc = abs(tb.reg(z, None)) + (abs(tb.sing(z, None)) if tb.sing else 0.0) + 1e-3
            judge(a, b, sc, 1e-10, f"NLO closed form at z={z:.8g} (reg+sing)", f"closed-pointwise|{label}", f"closed|{label}|pointwise|nf{nf}")
        for N in case["Ns"]:
            if tb.sing is None and N == 1.0 and case["cls"] == "Gluon" and case["module"].startswith("f2"):
                pass
            a, s = moment_pieces(rsl, N)
            b = quad.moment(tb, N)
            judge(a, b, max(s, abs(b)), 1e-9, f"NLO Mellin moment N={N:.6g} (fixes the delta term)", f"closed-moment|{label}", f"closed|{label}|moment|nf{nf}")
    return dict(violations=viol, compared=compared, nontrivial=sorted(nontrivial), classes=[fact], margin=margin, sample=sample)
