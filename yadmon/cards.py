"""Theory / observable cards and seeded generators (DESIGN §1.3).  Everything is plain JSON-able python."""
import copy

import numpy as np

CKM_PDG = "0.97428 0.22530 0.003470 0.22520 0.97345 0.041000 0.00862 0.04030 0.999152"

BASE_THEORY = dict(
    PTO=1, PTODIS=1, FNS="ZM-VFNS", NfFF=3,
    mc=1.51, mb=4.92, mt=172.5, kcThr=1.0, kbThr=1.0, ktThr=1.0,
    MaxNfPdf=6, MP=0.938, HQ="POLE", TMC=0,
    RenScaleVar=False, FactScaleVar=False,
    CKM=CKM_PDG, MW=80.398, MZ=91.1876, GF=1.1663787e-5, SIN2TW=0.23126,
    FONLLParts="full", n3lo_cf_variation=0,
    alphas=0.118, Qref=91.2, nfref=5, alphaqed=0.007496252, QED=0, ModEv="EXA",
    XIF=1.0, XIR=1.0, Qmc=1.51, Qmb=4.92, Qmt=172.5, IC=0, IB=0, MaxNfAs=6, Q0=1.65, nf0=3,
    kDIScThr=1.0, kDISbThr=1.0, kDIStThr=1.0,
)  # fmt: skip

SFS = ["F2", "FL", "F3", "g1", "gL", "g4"]
XSS = ["XSHERANC", "XSHERANCAVG", "XSHERACC", "XSCHORUSCC", "XSNUTEVCC", "XSNUTEVNU", "FW", "F1", "g5", "XSFPFCC"]
HEAVYNESS = ["total", "light", "charm", "bottom", "top", "charmlight", "bottomlight", "toplight"]
SCHEMES = ["ZM-VFNS", "FFNS", "FFN0", "FONLL-FFNS", "FONLL-FFN0"]
PROJECTILES = ["electron", "positron", "neutrino", "antineutrino"]
TARGETS = ["proton", "neutron", "isoscalar", "iron", "lead", "neon", "marble"]
PIDS = [22, -6, -5, -4, -3, -2, -1, 21, 1, 2, 3, 4, 5, 6]


def theory(**kw):
    t = copy.deepcopy(BASE_THEORY)
    t.update(kw)
    if "PTO" in kw and "PTODIS" not in kw:
        t["PTODIS"] = kw["PTO"]
    return t


def grid(n_low=8, n_mid=6, x_min=1e-4, kind="mixed"):
    """Interpolation grid as list of python floats.  kind: mixed (log+lin), log, lin."""
    if kind == "mixed":
        g = np.unique(np.concatenate([np.geomspace(x_min, 0.1, n_low), np.linspace(0.1, 1.0, n_mid + 1)]))
    elif kind == "log":
        g = np.geomspace(x_min, 1.0, n_low + n_mid)
    elif kind == "lin":
        g = np.linspace(x_min, 1.0, n_low + n_mid)
    else:
        raise ValueError(kind)
    g[-1] = 1.0
    return [float(x) for x in g]


def observables(obs, xgrid=None, deg=3, is_log=True, **kw):
    d = dict(
        interpolation_xgrid=list(xgrid) if xgrid is not None else grid(),
        interpolation_polynomial_degree=int(deg),
        interpolation_is_log=bool(is_log),
        prDIS="NC", TargetDIS="proton", ProjectileDIS="electron", PolarizationDIS=0.0,
        PropagatorCorrection=0.0, NCPositivityCharge=None,
        observables=obs,
    )  # fmt: skip
    d.update(kw)
    return d


def rand_ckm(rng):
    """Arbitrary (non-unitary) CKM as the string of 9 moduli the card expects."""
    return " ".join(f"{v:.6f}" for v in rng.uniform(0.05, 1.0, 9))


def rand_ew(rng):
    return dict(
        SIN2TW=float(rng.uniform(0.05, 0.9)),
        MZ=float(rng.uniform(20.0, 200.0)),
        MW=float(rng.uniform(20.0, 200.0)),
        GF=float(rng.uniform(0.5e-5, 2e-5)),
    )


def logu(rng, lo, hi):
    return float(np.exp(rng.uniform(np.log(lo), np.log(hi))))


def pick(rng, seq):
    return seq[int(rng.integers(len(seq)))]


def process_projectile(rng, process=None):
    """A consistent (process, projectile) pair."""
    process = process or pick(rng, ["EM", "NC", "CC"])
    if process == "CC":
        proj = pick(rng, PROJECTILES)
    else:
        proj = pick(rng, ["electron", "positron"]) if rng.random() < 0.7 else pick(rng, PROJECTILES)
    return process, proj


def x_classes(rng, xgrid, n=1, lo_frac=0.0):
    """Hostile x classes on a given grid: returns list of (x, class)."""
    g = list(xgrid)
    out = []
    inner = [i for i in range(len(g) - 1) if g[i] >= lo_frac]
    for _ in range(n):
        c = pick(rng, ["node", "between", "node+eps", "node-eps", "lowest", "high"])
        if c == "node":
            i = pick(rng, inner[1:] or inner)
            out.append((g[i], c))
        elif c == "between":
            i = pick(rng, inner)
            f = rng.uniform(0.1, 0.9)
            out.append((float(g[i] ** (1 - f) * g[i + 1] ** f), c))
        elif c == "node+eps":
            i = pick(rng, inner)
            out.append((float(g[i] * (1 + 1e-9)), c))
        elif c == "node-eps":
            i = pick(rng, inner[1:] or inner)
            out.append((float(g[i] * (1 - 1e-9)), c))
        elif c == "lowest":
            out.append((g[0], c))
        else:
            out.append((float(pick(rng, [0.9, 0.97, 0.999])), c))
    return out


def rand_grid(rng, small=True):
    n = (int(rng.integers(4, 9)), int(rng.integers(3, 7))) if small else (int(rng.integers(8, 20)), int(rng.integers(5, 12)))
    kind = pick(rng, ["mixed", "mixed", "log", "lin"])
    xg = grid(*n, x_min=logu(rng, 1e-5, 3e-3) if kind != "lin" else logu(rng, 1e-3, 2e-2), kind=kind)
    deg = int(rng.integers(1, min(5, len(xg) - 1) + 1))
    is_log = bool(rng.random() < 0.75)
    return dict(xgrid=xg, deg=deg, is_log=is_log)


def rand_points(rng, xgrid, n=2, q2lo=2.0, q2hi=1e4, xmax=0.95):
    """Kinematic points (x, Q2, cls) strictly inside the grid."""
    g = [x for x in xgrid]
    pts = []
    for _ in range(n):
        c = pick(rng, ["node", "between", "between", "node+eps", "lowest", "high"])
        hi = max(i for i, x in enumerate(g) if x <= xmax)
        if c == "node":
            x = g[int(rng.integers(1, hi + 1))]
        elif c == "between":
            i = int(rng.integers(0, hi))
            f = rng.uniform(0.1, 0.9)
            x = float(g[i] * (1 - f) + g[i + 1] * f)
        elif c == "node+eps":
            x = float(g[int(rng.integers(0, hi))] * (1 + 1e-9))
        elif c == "lowest":
            x = g[0]
        else:
            x = float(min(xmax, pick(rng, [0.7, 0.85, 0.93])))
        pts.append(dict(x=float(x), Q2=logu(rng, q2lo, q2hi), cls=c))
    return pts


def rand_config(rng, process=None, ptos=(0, 1, 2, 3), schemes=None, kinds=None, sv=False, ew=True, masses=True):
    """A random but supported configuration cell: returns dict(theory=.., obs=.., kinds=[...]) (overrides only)."""
    process, proj = process_projectile(rng, process)
    scheme = pick(rng, schemes or SCHEMES)
    nfff = int(rng.integers(3, 7)) if scheme in ("FFNS", "FFN0") else int(rng.integers(3, 6))
    pto = int(pick(rng, list(ptos)))
    th = dict(PTO=pto, FNS=scheme, NfFF=nfff)
    if ew:
        th.update(rand_ew(rng))
        th["CKM"] = rand_ckm(rng) if rng.random() < 0.7 else CKM_PDG
    if masses:
        th.update(mc=float(rng.uniform(1.2, 1.8)), mb=float(rng.uniform(4.0, 5.2)), mt=float(rng.uniform(150.0, 180.0)))
    if sv:
        th.update(RenScaleVar=bool(rng.random() < 0.5), FactScaleVar=bool(rng.random() < 0.5))
    ob = dict(prDIS=process, ProjectileDIS=proj)
    if process != "CC" and rng.random() < 0.6:
        ob["PolarizationDIS"] = float(rng.uniform(-1, 1))
    if rng.random() < 0.4:
        ob["PropagatorCorrection"] = float(rng.uniform(0, 0.4))
    if kinds is None:
        kinds = ["F2", "FL", "F3"] if process == "CC" else ["F2", "FL", "F3", "g1", "gL", "g4"]
        if pto == 3:
            kinds = [k for k in kinds if k != "g1"]  # no polarised N3LO coefficient functions (C16 judges the error)
    return dict(theory=th, obs=ob, kinds=list(kinds))


def warp_grid(xgrid):
    """Same number of nodes, same first and last node, different interior nodes (every interior node moved 35% of the way towards
    its upper neighbour in ln x): what a memo keyed by grid size / end points cannot tell from the original."""
    g = np.log(np.array(xgrid, dtype=float))
    w = g.copy()
    w[1:-1] = g[1:-1] + 0.35 * (g[2:] - g[1:-1])
    out = [float(v) for v in np.exp(w)]
    out[0], out[-1] = float(xgrid[0]), float(xgrid[-1])
    return out
