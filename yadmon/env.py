"""Locations, execution modes and the per-tree numba cache (DESIGN §1.2)."""
import hashlib
import os
import pathlib
import shutil
import subprocess
import sys
import time

VERIF = pathlib.Path(__file__).resolve().parent.parent
REPO = pathlib.Path(os.environ.get("VERIF_REPO", "/repo")).resolve()
SRC = REPO / "src"
PY = os.environ.get("VERIF_PYTHON", "/venv/bin/python")
WORK = VERIF / ".work"
NCPU = int(os.environ.get("VERIF_NCPU", str(os.cpu_count() or 4)))

MODES = {
    # name: extra environment
    "jit": {},
    "py": {"NUMBA_DISABLE_JIT": "1"},
    "bounds": {"NUMBA_BOUNDSCHECK": "1"},
}


def seed():
    return int(os.environ.get("VERIF_SEED", "0"))


def tier(default="quick"):
    t = os.environ.get("VERIF_TIER", default)
    return t if t in ("quick", "thorough") else default


_tree_hash = None


def tree_hash():
    """sha256 over every python source of the package under test (+ numba/llvmlite versions)."""
    global _tree_hash
    if _tree_hash is None:
        h = hashlib.sha256()
        files = sorted((SRC / "yadism").rglob("*.py"))
        for f in files:
            h.update(str(f.relative_to(SRC)).encode())
            h.update(f.read_bytes())
        try:
            import importlib.metadata as md

            for pkg in ("numba", "llvmlite", "eko", "numpy"):
                h.update(f"{pkg}={md.version(pkg)}".encode())
        except Exception:  # pragma: no cover
            pass
        _tree_hash = h.hexdigest()[:20]
    return _tree_hash


def cache_dir(mode):
    return WORK / "nbcache" / f"{tree_hash()}-{mode}"


def worker_env(mode):
    env = dict(os.environ)
    for k in ("NUMBA_DISABLE_JIT", "NUMBA_BOUNDSCHECK"):
        env.pop(k, None)
    env.update(MODES[mode])
    env["NUMBA_CACHE_DIR"] = str(cache_dir(mode))
    env["PYTHONPATH"] = os.pathsep.join([str(SRC), str(VERIF)])
    env["VERIF_REPO"] = str(REPO)
    env["PYTHONHASHSEED"] = "0"
    env["OMP_NUM_THREADS"] = "1"
    env["OPENBLAS_NUM_THREADS"] = "1"
    env["MKL_NUM_THREADS"] = "1"
    env["NUMBA_NUM_THREADS"] = "1"
    env["PYTHONWARNINGS"] = "ignore"
    return env


def yadism_modules():
    mods = []
    for f in sorted((SRC / "yadism").rglob("*.py")):
        rel = f.relative_to(SRC).with_suffix("")
        parts = list(rel.parts)
        if parts[-1] == "__init__":
            parts = parts[:-1]
        mods.append(".".join(parts))
    return mods


def prune_caches(keep=8, min_age_s=3 * 3600):
    """Remove old per-tree cache directories (never one that was used recently: another check may be running on it)."""
    root = WORK / "nbcache"
    if not root.is_dir():
        return
    now = time.time()
    dirs = sorted((d for d in root.iterdir() if d.is_dir()), key=lambda d: d.stat().st_mtime)
    for d in dirs[:-keep]:
        if now - d.stat().st_mtime > min_age_s:
            shutil.rmtree(d, ignore_errors=True)


def prepare(mode="jit", quiet=False):
    """Create the cache directory for the current tree and compile every kernel once, in parallel."""
    cd = cache_dir(mode)
    cd.mkdir(parents=True, exist_ok=True)
    os.utime(cd)
    marker = cd / "warm.ok"
    if mode == "py" or marker.exists():
        return 0.0
    t0 = time.time()
    mods = yadism_modules()
    n = min(NCPU, 16)
    procs = []
    code = (
        "import sys,importlib,warnings\nwarnings.filterwarnings('ignore')\n"
        "import yadism.log\nyadism.log.silent_mode=True\n"
        "for m in sys.argv[1:]:\n"
        "    try: importlib.import_module(m)\n"
        "    except BaseException as e: print('warm-import-failed',m,type(e).__name__,e,file=sys.stderr)\n"
    )
    logdir = WORK / "logs"
    logdir.mkdir(parents=True, exist_ok=True)
    for i in range(n):
        sl = mods[i::n]
        if not sl:
            continue
        procs.append(
            subprocess.Popen(
                [PY, "-c", code, *sl],
                env=worker_env(mode),
                stdout=subprocess.DEVNULL,
                stderr=open(logdir / f"warm-{mode}-{i}.log", "w"),
            )
        )
    for p in procs:
        try:
            p.wait(timeout=900)
        except subprocess.TimeoutExpired:
            p.kill()
    marker.write_text(time.strftime("%F %T"))
    prune_caches()
    dt = time.time() - t0
    if not quiet:
        print(f"[env] JIT warm-up for tree {tree_hash()} mode={mode}: {dt:.1f}s", file=sys.stderr)
    return dt
