"""Worker process: executes cases of one property module, one JSON line in -> one JSON line out."""
import importlib
import json
import os
import sys
import traceback


def jsonable(o):
    import numpy as np

    if isinstance(o, (np.integer,)):
        return int(o)
    if isinstance(o, (np.floating,)):
        return float(o)
    if isinstance(o, (np.bool_,)):
        return bool(o)
    if isinstance(o, np.ndarray):
        return o.tolist()
    if isinstance(o, (set, frozenset, tuple)):
        return list(o)
    if isinstance(o, complex):
        return [o.real, o.imag]
    return repr(o)


def main():
    # keep a private channel to the parent; anything the code under test prints goes to stderr
    out = os.fdopen(os.dup(1), "w")
    os.dup2(2, 1)
    sys.stdout = sys.stderr
    import faulthandler

    faulthandler.enable(file=sys.stderr, all_threads=True)
    import warnings

    warnings.filterwarnings("ignore")
    from yadmon import env

    cov = None
    if os.environ.get("YADMON_COVERAGE_DIR"):  # tools/coverage_map.py: which lines of the package the workloads reach
        import coverage

        cov = coverage.Coverage(data_file=os.path.join(os.environ["YADMON_COVERAGE_DIR"], ".coverage"), data_suffix=True, source=[str(env.SRC)])
        cov.start()
    try:
        import yadism
        import yadism.log

        yadism.log.silent_mode = True
        loc = os.path.realpath(yadism.__file__)
        ok = loc.startswith(str(env.SRC))
        hello = {"hello": True, "yadism": loc, "ok": ok}
    except BaseException as e:  # import of the package under test failed
        hello = {"hello": True, "ok": False, "error": f"{type(e).__name__}: {e}", "trace": traceback.format_exc()[-2000:]}
    out.write(json.dumps(hello) + "\n")
    out.flush()
    for line in sys.stdin:
        line = line.strip()
        if not line:
            continue
        req = json.loads(line)
        if req.get("quit"):
            break
        try:
            mod = importlib.import_module(f"yadmon.props.{req['prop'].lower()}")
            res = mod.run_case(req["case"])
            if not isinstance(res, dict):
                res = {"status": "inconclusive", "reason": "harness: run_case returned no dict"}
        except BaseException as e:  # harness-level problem or unexpected failure of the code under test
            res = {
                "status": "inconclusive",
                "reason": f"exception:{type(e).__name__}"
                + (":dependency-says-not-known" if "is not known" in str(e) else ""),
                "message": str(e)[:500],
                "trace": traceback.format_exc()[-3000:],
            }
        out.write(json.dumps(res, default=jsonable) + "\n")
        out.flush()
    if cov is not None:
        cov.stop()
        cov.save()


if __name__ == "__main__":
    main()
