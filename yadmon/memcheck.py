"""Valgrind memcheck over whole production-mode runs: the machine code numba emits (no bounds instrumentation) is watched for reads
and writes outside live heap blocks while the real pipeline drives the kernels with the argument vectors it really passes.

A report counts against C18 only when the faulting instruction is in JIT-emitted code (a frame without object file) or in numba's
runtime; reports from the dynamic loader's SSE string routines (a well-known memcheck false positive) are dropped, anything else is
kept in the evidence as 'other' without deciding the property.
"""
import json
import os
import re
import shutil
import subprocess
import time

from . import env

NOISE = re.compile(r"dl-|_dl_|ld-linux|dl_open|rtld")


def available():
    return shutil.which("valgrind") is not None


def parse(log):
    """-> list of dict(kind, frames[list of str]) from a memcheck text log"""
    errs, cur = [], None
    for ln in log.splitlines():
        m = re.match(r"==\d+== (.*)$", ln)
        if not m:
            continue
        t = m.group(1)
        if re.match(r"(Invalid (read|write)|Conditional jump|Use of uninitialised|Syscall param|Invalid free|Mismatched free|Source and destination overlap|Argument .* of function)", t):
            cur = dict(kind=t.strip(), frames=[])
            errs.append(cur)
        elif cur is not None and re.match(r"\s+(at|by) 0x", t):
            cur["frames"].append(re.sub(r"^\s+(at|by) 0x[0-9A-Fa-f]+: ", "", t).strip())
        elif cur is not None and (t.strip() == "" or t.startswith(" Address") or t.startswith("  Address")):
            cur = None if t.strip() == "" else cur
    return errs


def classify(err):
    fr = err["frames"]
    if any(NOISE.search(f) for f in fr[:10]):
        return "loader-noise"
    top = fr[0] if fr else "???"
    if err["kind"].startswith("Invalid") and (top.startswith("???") or "numba" in top or "NRT_" in top or "_helperlib" in top):
        return "jit"
    if err["kind"].startswith("Invalid") and any(f.startswith("???") for f in fr[:3]):
        return "jit"
    return "other"


def run_one(case, timeout):
    wd = env.WORK / "memcheck"
    wd.mkdir(parents=True, exist_ok=True)
    cf, lf = wd / f"{case['id']}.json", wd / f"{case['id']}.vg.log"
    cf.write_text(json.dumps(case))
    e = env.worker_env("jit")
    cd = env.cache_dir("jit").parent / (env.cache_dir("jit").name.replace("-jit", "-vg")) / case["id"]
    cd.mkdir(parents=True, exist_ok=True)
    e.update(NUMBA_CACHE_DIR=str(cd), PYTHONMALLOC="malloc")
    cmd = ["valgrind", "--tool=memcheck", "--smc-check=all-non-file", "--error-limit=no", "--num-callers=20", "--undef-value-errors=no", "--partial-loads-ok=no",
           f"--log-file={lf}", env.PY, "-m", "yadmon.memrun", str(cf)]  # fmt: skip
    t0 = time.time()
    try:
        r = subprocess.run(cmd, env=e, cwd=env.VERIF, capture_output=True, text=True, timeout=timeout)
    except subprocess.TimeoutExpired:
        return dict(status="inconclusive", reason="memcheck-timeout", wall=time.time() - t0)
    done = [ln for ln in r.stdout.splitlines() if ln.startswith("MEMRUN-DONE")]
    log = lf.read_text(errors="replace") if lf.exists() else ""
    if not done or "ERROR SUMMARY" not in log:
        return dict(status="inconclusive", reason="memcheck-run-failed", stderr=r.stderr[-1500:], wall=time.time() - t0)
    errs = parse(log)
    by = {"loader-noise": 0, "jit": 0, "other": 0}
    viol, other = [], []
    for er in errs:
        c = classify(er)
        by[c] += 1
        if c == "jit":
            viol.append(dict(sig="memcheck|" + er["kind"].split(" of size")[0].replace(" ", "-").lower(),
                             what=f"valgrind memcheck, {case['kind']}_{case['heavy']} {case['theory']}: {er['kind']} in JIT-emitted code; stack: {' <- '.join(er['frames'][:6])}"))  # fmt: skip
        elif c == "other" and len(other) < 5:
            other.append(dict(kind=er["kind"], stack=er["frames"][:5]))
    m = re.search(r"ERROR SUMMARY: (\d+) errors from (\d+) contexts", log)
    return dict(violations=viol, compared=1, classes=["memcheck"], nontrivial=[f"memcheck|{case['kind']}|{case['heavy']}|{case['obs']['prDIS']}|{case['theory']['FNS']}|pto{case['theory']['PTO']}|tmc{case['theory'].get('TMC', 0)}"],
                probes=dict(memcheck_programs=1, memcheck_reports=len(errs), memcheck_loader_noise=by["loader-noise"], memcheck_other=by["other"]),
                sample=dict(program=f"{case['kind']}_{case['heavy']}", theory=case["theory"], run=json.loads(done[0][12:]), valgrind_summary=m.group(0) if m else None, reports=by, other_reports=other, wall_s=round(time.time() - t0)))  # fmt: skip
