"""Thin helpers around the public API of the code under test (imported lazily, inside workers)."""
import copy

import numpy as np

from . import cards


def yad():
    import yadism
    import yadism.log

    yadism.log.silent_mode = True
    return yadism


def run(theory, obs):
    return yad().run_yadism(theory, obs)


def interpolator(obs):
    from eko.interpolation import InterpolatorDispatcher, XGrid

    xg = XGrid(obs["interpolation_xgrid"], obs["interpolation_is_log"])
    return InterpolatorDispatcher(xg, obs["interpolation_polynomial_degree"], mode_N=False)


def basis_at(interp, u):
    """Vector p_j(u) from eko's public BasisFunction.evaluate_x (0 for u>1)."""
    if u > 1.0:
        return np.zeros(len(interp.xgrid.raw))
    return np.array([bf.evaluate_x(u) for bf in interp])


def pid_index(pid):
    return cards.PIDS.index(pid)


def absmax(a):
    a = np.asarray(a)
    return float(np.max(np.abs(a))) if a.size else 0.0


def cmp(obs, exp, scale, rtol, atol=0.0):
    """Return (margin, maxdev) of |obs-exp| against rtol*scale+atol; margin>1 means out of tolerance.

    Non-finite anywhere => margin inf.
    """
    obs = np.asarray(obs, dtype=float)
    exp = np.asarray(exp, dtype=float)
    if not (np.all(np.isfinite(obs)) and np.all(np.isfinite(exp))):
        return float("inf"), float("nan")
    d = np.abs(obs - exp)
    tol = rtol * np.asarray(scale, dtype=float) + atol
    tol = np.maximum(tol, 1e-300)
    m = d / tol
    return float(np.max(m)) if m.size else 0.0, float(np.max(d)) if d.size else 0.0


def exc_sig(e):
    """Mechanism signature of an exception: type + innermost frame (module basename, function)."""
    import traceback

    tb = traceback.extract_tb(e.__traceback__)
    fr = tb[-1] if tb else None
    where = f"{fr.filename.split('/')[-1]}:{fr.name}" if fr else "?"
    return f"{type(e).__name__}@{where}"
