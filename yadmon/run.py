"""Thin helpers around the public API of the code under test (imported lazily, inside workers)."""
import copy

import numpy as np

from . import cards


def yad():
    import yadism
    import yadism.log

    yadism.log.silent_mode = True
    return yadism


def run(theory, obs):
    return yad().run_yadism(theory, obs)


def interpolator(obs):
    from eko.interpolation import InterpolatorDispatcher, XGrid

    xg = XGrid(obs["interpolation_xgrid"], obs["interpolation_is_log"])
    return InterpolatorDispatcher(xg, obs["interpolation_polynomial_degree"], mode_N=False)


def basis_at(interp, u):
    """Vector p_j(u) from eko's public BasisFunction.evaluate_x (0 for u>1)."""
    if u > 1.0:
        return np.zeros(len(interp.xgrid.raw))
    return np.array([bf.evaluate_x(u) for bf in interp])


def pid_index(pid):
    return cards.PIDS.index(pid)


def absmax(a):
    a = np.asarray(a)
    return float(np.max(np.abs(a))) if a.size else 0.0


def cmp(obs, exp, scale, rtol, atol=0.0):
    """Return (margin, maxdev) of |obs-exp| against rtol*scale+atol; margin>1 means out of tolerance.

    Non-finite anywhere => margin inf.
    """
    obs = np.asarray(obs, dtype=float)
    exp = np.asarray(exp, dtype=float)
    if not (np.all(np.isfinite(obs)) and np.all(np.isfinite(exp))):
        return float("inf"), float("nan")
    d = np.abs(obs - exp)
    tol = rtol * np.asarray(scale, dtype=float) + atol
    tol = np.maximum(tol, 1e-300)
    m = d / tol
    return float(np.max(m)) if m.size else 0.0, float(np.max(d)) if d.size else 0.0


def exc_sig(e):
    """Mechanism signature of an exception: type + innermost frame (module basename, function)."""
    import traceback

    tb = traceback.extract_tb(e.__traceback__)
    fr = tb[-1] if tb else None
    where = f"{fr.filename.split('/')[-1]}:{fr.name}" if fr else "?"
    return f"{type(e).__name__}@{where}"


def key(o):
    return "(%d,%d,%d,%d)" % tuple(o)


def same_bits(a, b):
    """Bit-for-bit equality of two result objects (x, Q2, order keys and their order, values, errors)."""
    if list(a.orders.keys()) != list(b.orders.keys()):
        return False, f"order keys differ: {list(a.orders.keys())} vs {list(b.orders.keys())}"
    for o in a.orders:
        for t in (0, 1):
            x, y = np.asarray(a.orders[o][t]), np.asarray(b.orders[o][t])
            if x.shape != y.shape or not np.array_equal(x, y, equal_nan=True):
                d = float(np.max(np.abs(x - y))) if x.shape == y.shape else float("nan")
                return False, f"order {key(o)} {'values' if t == 0 else 'errors'} differ (max |diff| {d:.3g}, max |a| {absmax(x):.3g})"
    return True, ""


def cmp_results(a, combo, rtol, atol=0.0, what="values"):
    """Compare result `a` with a linear combination `combo` = [(coef, result), ...] for every order key.

    Returns (margin, n_compared, n_nonzero_orders, worst_description).  Scale = sum |coef|*max|tensor| per order.
    A key missing on one side counts as a zero tensor.
    """
    keys = list(a.orders.keys())
    for _, r in combo:
        for o in r.orders:
            if o not in keys:
                keys.append(o)
    margin, n, nz, worst = 0.0, 0, 0, ""
    for o in keys:
        shape = None
        for r in [a] + [r for _, r in combo]:
            if o in r.orders:
                shape = np.asarray(r.orders[o][0]).shape
        got = np.asarray(a.orders[o][0]) if o in a.orders else np.zeros(shape)
        exp = np.zeros(shape)
        scale = absmax(got) * 0.0
        for c, r in combo:
            if o in r.orders:
                v = np.asarray(r.orders[o][0])
                exp = exp + c * v
                scale += abs(c) * absmax(v)
        m, d = cmp(got, exp, scale, rtol, atol)
        n += got.size
        if scale > 0:
            nz += 1
        if m > margin:
            margin = m
            worst = f"order {key(o)}: max |obs-exp| = {d:.3g} at scale {scale:.3g} (obs max {absmax(got):.3g})"
    return margin, n, nz, worst
