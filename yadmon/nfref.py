"""Reference model: number of light flavours and massive quarks per scheme (C06), exact at float boundaries."""
from fractions import Fraction

HQ = {4: "c", 5: "b", 6: "t"}


def matching_scales2_exact(theory):
    """(m_h * k_h)^2 as exact rationals of the float inputs."""
    out = []
    for fl in "cbt":
        m = Fraction(theory[f"m{fl}"])
        k = Fraction(theory[f"k{fl}Thr"])
        out.append((m * k) ** 2)
    return out


def nf_light(theory, Q2):
    fns = theory["FNS"]
    if fns == "ZM-VFNS":
        q = Fraction(Q2)
        return 3 + sum(1 for s in matching_scales2_exact(theory) if s <= q)
    return int(theory["NfFF"])


def massive_quarks(theory):
    """Heavy quarks whose mass effects are computed (and which are not light)."""
    fns = theory["FNS"]
    n = int(theory["NfFF"])
    if fns == "ZM-VFNS":
        return []
    if fns in ("FFNS", "FFN0"):
        return [h for h in (4, 5, 6) if h > n]
    if fns in ("FONLL-FFNS", "FONLL-FFN0"):
        return [n + 1] if n + 1 <= 6 else []
    raise ValueError(fns)


def beta0(nf):
    return 11.0 - 2.0 * nf / 3.0


def beta1(nf):
    return 102.0 - 38.0 * nf / 3.0
