"""lhapdf-like toy PDFs built from a JSON spec (so that every case is replayable)."""
import numpy as np

from .cards import PIDS


class SpanPDF:
    """f_p(x) = sum_k a[p][k] t^k with t = ln x (log grids) or t = x (linear grids).

    With degree <= the interpolation degree this lies exactly in the span of the Lagrange basis.
    xfxQ2 returns x*f, as lhapdf does.  Optional Q2 dependence: overall factor (1 + q2slope*ln(Q2/10)).
    """

    def __init__(self, coeffs, is_log=True, q2slope=0.0, flavors=None):
        self.c = {int(k): [float(a) for a in v] for k, v in coeffs.items()}
        self.is_log = is_log
        self.q2slope = q2slope
        self.flavors = set(int(p) for p in flavors) if flavors is not None else set(self.c)
        self.calls = []

    @classmethod
    def random(cls, rng, deg, is_log=True, pids=None, **kw):
        pids = PIDS if pids is None else pids
        return dict(kind="span", coeffs={str(p): [float(a) for a in rng.normal(size=deg + 1) / (1.0 + np.arange(deg + 1)) ** 2] for p in pids},
                    is_log=is_log, **kw)  # fmt: skip

    def f(self, pid, x, Q2=10.0):
        if pid not in self.c or pid not in self.flavors:
            return 0.0
        t = np.log(x) if self.is_log else x
        r = 0.0
        for a in reversed(self.c[pid]):
            r = r * t + a
        return r * (1.0 + self.q2slope * np.log(Q2 / 10.0))

    def hasFlavor(self, pid):
        return pid in self.flavors

    def xfxQ2(self, pid, x, Q2):
        self.calls.append((pid, x, Q2))
        return x * self.f(pid, x, Q2)


class SmoothPDF:
    """f_p(x) = n_p x^(a_p) (1-x)^(b_p) (1 + c_p x) * (1 + q2slope ln(Q2/10)); physical-looking, vanishes at x=1."""

    def __init__(self, params, q2slope=0.0, flavors=None):
        self.p = {int(k): [float(a) for a in v] for k, v in params.items()}
        self.q2slope = q2slope
        self.flavors = set(int(p) for p in flavors) if flavors is not None else set(self.p)
        self.calls = []

    @classmethod
    def random(cls, rng, pids=None, **kw):
        pids = PIDS if pids is None else pids
        par = {}
        for p in pids:
            par[str(p)] = [float(rng.uniform(0.2, 2.0)), float(rng.uniform(-1.3, -0.5)), float(rng.uniform(2.0, 6.0)), float(rng.uniform(0.0, 3.0))]
        return dict(kind="smooth", params=par, **kw)

    def f(self, pid, x, Q2=10.0):
        if pid not in self.p or pid not in self.flavors:
            return 0.0
        n, a, b, c = self.p[pid]
        if x >= 1.0:
            return 0.0
        return n * x**a * (1 - x) ** b * (1 + c * x) * (1.0 + self.q2slope * np.log(Q2 / 10.0))

    def hasFlavor(self, pid):
        return pid in self.flavors

    def xfxQ2(self, pid, x, Q2):
        self.calls.append((pid, x, Q2))
        return x * self.f(pid, x, Q2)


def make(spec):
    spec = dict(spec)
    kind = spec.pop("kind")
    if kind == "span":
        return SpanPDF(**spec)
    if kind == "smooth":
        return SmoothPDF(**spec)
    raise ValueError(kind)
