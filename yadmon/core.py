"""Driver: cases -> pool -> verdicts -> known findings -> evidence (DESIGN §1.4)."""
import fnmatch
import hashlib
import importlib
import json
import os
import sys
import time

import numpy as np

from . import env
from .pool import Pool
from .worker import jsonable

FINDINGS_FILE = env.VERIF / "known_findings.json"


def load_findings(prop):
    if not FINDINGS_FILE.exists():
        return []
    data = json.loads(FINDINGS_FILE.read_text())
    return [f for f in data.get("findings", []) if f.get("property") == prop]


def match_finding(sig, findings):
    """Only *open* findings suppress; matching is by mechanism signature (glob), never by case."""
    for f in findings:
        if f.get("status") != "open":
            continue
        pats = f["sig"] if isinstance(f["sig"], list) else [f["sig"]]
        if any(fnmatch.fnmatchcase(sig, p) for p in pats):
            return f
    return None


def digest(obj):
    return hashlib.sha256(json.dumps(obj, sort_keys=True, default=jsonable).encode()).hexdigest()[:16]


def write_replay(prop, case, result, violation):
    d = env.VERIF / "replays" / prop
    d.mkdir(parents=True, exist_ok=True)
    dg = digest([case, violation.get("sig")])
    p = d / f"{dg}.json"
    p.write_text(
        json.dumps(
            {
                "property": prop,
                "tree": env.tree_hash(),
                "repo": str(env.REPO),
                "case": case,
                "violation": violation,
                "result": {k: v for k, v in result.items() if k not in ("trace",)},
                "how": f"./check {prop} --replay replays/{prop}/{dg}.json",
            },
            indent=1,
            default=jsonable,
        )
    )
    return f"replays/{prop}/{dg}.json"


def status_of(r):
    if r is None:
        return "skipped"
    if r.get("violations"):
        return "violated"
    st = r.get("status")
    if st in ("inconclusive", "crashed"):
        return st
    return "held"


def run_check(prop, tier=None, seed=None, replay=None):
    t0 = time.time()
    tier = tier or env.tier()
    seed = env.seed() if seed is None else seed
    mod = importlib.import_module(f"yadmon.props.{prop.lower()}")
    mode = getattr(mod, "MODE", "jit")
    warm = env.prepare(mode)
    for extra in getattr(mod, "EXTRA_MODES", []):
        warm += env.prepare(extra)

    if replay:
        return run_replay(prop, mod, replay)

    rng = np.random.default_rng([seed, int(prop[1:]), 0 if tier == "quick" else 1])
    cases = mod.cases(tier, rng)
    budget = mod.budget(tier) if hasattr(mod, "budget") else (240 if tier == "quick" else 1500)
    budget = float(os.environ.get("VERIF_BUDGET", budget))
    deadline = time.time() + budget
    case_timeout = getattr(mod, "CASE_TIMEOUT", 600)

    def progress(k, n):
        if k % max(1, n // 10) == 0:
            print(f"[{prop}] {k}/{n} cases  {time.time()-t0:.0f}s", file=sys.stderr, flush=True)

    if hasattr(mod, "execute"):
        results = mod.execute(cases, deadline, progress)
    else:
        results = Pool(prop, mode, case_timeout=case_timeout).map(cases, deadline, progress)

    extra_viol = []
    if hasattr(mod, "aggregate"):
        extra_viol = mod.aggregate(cases, results) or []

    findings = load_findings(prop)
    counts = {"held": 0, "violated": 0, "known_finding": 0, "inconclusive": 0, "crashed": 0, "skipped": 0}
    reasons = {}
    inc_samples = []
    nontrivial = set()
    nontrivial_cases = set()
    classes = {}
    probes = {}
    compared = 0
    margin = 0.0
    margin_case = None
    samples = []
    lines = []
    seen_sigs = {}
    known_hit = {}
    nviol = 0
    for case, r in zip(cases, results):
        st = status_of(r)
        if st == "violated" and all(match_finding(v.get("sig", "?"), findings) is not None for v in r.get("violations", [])):
            st = "known_finding"  # every violation of this case is a listed open finding: reported as KNOWN-FINDING, not as an alarm
        counts[st] += 1
        if r is None:
            continue
        if st in ("inconclusive", "crashed"):
            reasons[r.get("reason", "?")] = reasons.get(r.get("reason", "?"), 0) + 1
            if reasons[r.get("reason", "?")] <= 3:
                inc_samples.append(
                    {"reason": r.get("reason", "?"), "case": case.get("id"), "trace_tail": str(r.get("trace", ""))[-600:]}
                )
        for k in r.get("nontrivial", []) or []:
            nontrivial.add(k)
        if r.get("nontrivial"):
            nontrivial_cases.add(hashlib.sha256(json.dumps({k: v for k, v in case.items() if k != "id"}, sort_keys=True, default=jsonable).encode()).hexdigest())
        for c in r.get("classes", []) or []:
            classes[c] = classes.get(c, 0) + 1
        for k, v in (r.get("probes") or {}).items():
            probes[k] = probes.get(k, 0) + int(v)
        compared += int(r.get("compared", 0) or 0)
        m = float(r.get("margin", 0.0) or 0.0)
        if np.isfinite(m) and m > margin and st not in ("violated", "known_finding"):
            margin, margin_case = m, case.get("id")
        if r.get("sample") is not None and len(samples) < 6 and st == "held":
            samples.append({"case": case, "observed": r["sample"]})
        for v in r.get("violations", []) or []:
            sig = v.get("sig", "?")
            f = match_finding(sig, findings)
            if f is not None:
                known_hit.setdefault(f["key"], [f, 0])[1] += 1
                continue
            nviol += 1
            if sig not in seen_sigs:
                seen_sigs[sig] = 0
                path = write_replay(prop, case, r, v)
                lines.append(f"VIOLATION property={prop} replay={path}  sig={sig}  {v.get('what','')}")
            seen_sigs[sig] += 1
    for v in extra_viol:
        sig = v.get("sig", "?")
        f = match_finding(sig, findings)
        if f is not None:
            known_hit.setdefault(f["key"], [f, 0])[1] += 1
            continue
        nviol += 1
        if sig not in seen_sigs:
            seen_sigs[sig] = 0
            path = write_replay(prop, v.get("case", {"aggregate": True}), {"aggregate": True}, v)
            lines.append(f"VIOLATION property={prop} replay={path}  sig={sig}  {v.get('what','')}")
        seen_sigs[sig] += 1

    # coverage floor
    floor = mod.floor(tier) if hasattr(mod, "floor") else {}
    conclusive = counts["held"] + counts["violated"] + counts["known_finding"]
    short = []
    if conclusive < floor.get("min_conclusive", 1):
        short.append(f"conclusive cases {conclusive} < {floor.get('min_conclusive', 1)}")
    if len(nontrivial) < max(2, floor.get("min_nontrivial", 2)):
        short.append(f"distinct non-trivial {len(nontrivial)} < {max(2, floor.get('min_nontrivial', 2))}")
    for c in floor.get("classes", []):
        if classes.get(c, 0) == 0:
            short.append(f"class '{c}' never observed")
    for p in floor.get("probes", []):
        if probes.get(p, 0) == 0:
            short.append(f"probe '{p}' saw no events")
    if compared < floor.get("min_compared", 1):
        short.append(f"compared quantities {compared} < {floor.get('min_compared', 1)}")

    wall = time.time() - t0
    if not samples:
        for case, r in zip(cases, results):
            if r is not None and len(samples) < 3:
                samples.append({"case": case, "observed": r.get("sample"), "status": status_of(r)})
    cov = {
        "evaluations": int(sum(counts.values()) - counts["skipped"]),
        "distinct_nontrivial": int(len(nontrivial_cases)),
        "distinct_nontrivial_cells": int(len(nontrivial)),
        "rule": getattr(mod, "RULE", "") + " [counting: distinct_nontrivial = generated cases, deduplicated by a hash of their content, in which at least one "
        "non-trivial comparison in the above sense was made; distinct_nontrivial_cells = the distinct cells named under 'Distinct' that those comparisons fell into]",
        "samples": samples,
        "cases_generated": len(cases),
        "verdicts": counts,
        "inconclusive_reasons": reasons,
        "inconclusive_samples": inc_samples[:12],
        "quantities_compared": int(compared),
        "classes_seen": classes,
        "probe_events": probes,
        "max_margin_on_held_cases": margin,
        "max_margin_case": margin_case,
        "known_findings_hit": {k: n for k, (f, n) in known_hit.items()},
        "violation_signatures": seen_sigs,
        "coverage_floor": floor,
        "coverage_floor_unmet": short,
        "mode": mode,
        "tree": env.tree_hash(),
        "repo": str(env.REPO),
        "jit_warmup_s": round(warm, 1),
        "wall_budget_s": budget,
        "nontrivial_keys_sample": sorted(nontrivial)[:40],
    }
    level = getattr(mod, "LEVEL", "exploration")
    if level == "translation_validation":
        cov["programs"] = int(probes.get("programs", len(nontrivial)))
        cov["disagreements_checked"] = int(nviol + sum(n for _, n in known_hit.values()))
    if hasattr(mod, "extra_coverage"):
        cov.update(mod.extra_coverage(cases, results) or {})
    ev = {
        "property_id": prop,
        "tier": tier,
        "seed": int(seed),
        "level": level,
        "coverage": cov,
        "assumptions": list(getattr(mod, "ASSUMPTIONS", [])),
        "wall_s": round(wall, 2),
        "violations": int(nviol),
    }
    evdir = env.VERIF / os.environ.get("VERIF_EVIDENCE_DIR", "evidence")  # (selftest / seeded-change runs write elsewhere)
    evdir.mkdir(parents=True, exist_ok=True)
    (evdir / f"{prop}.json").write_text(json.dumps(ev, indent=1, default=jsonable) + "\n")

    for k, (f, n) in sorted(known_hit.items()):
        print(f"KNOWN-FINDING: property={prop} {f['key']}: {f['what']} (hit by {n} observation(s))")
    for ln in lines[:25]:
        print(ln)
    if len(lines) > 25:
        print(f"... {len(lines)-25} further distinct violation signatures in evidence/{prop}.json")
    print(
        f"[{prop}] tier={tier} seed={seed} cases={cov['evaluations']}/{len(cases)} held={counts['held']} "
        f"violated={counts['violated']} known_finding={counts['known_finding']} inconclusive={counts['inconclusive']+counts['crashed']} "
        f"nontrivial={len(nontrivial)} compared={compared} max_margin={margin:.3g} wall={wall:.0f}s"
    )
    if nviol:
        return 1
    if short:
        print(f"INCONCLUSIVE property={prop} " + "; ".join(short))
        if reasons:
            print("  reasons:", json.dumps(reasons))
        return 2
    return 0


def run_replay(prop, mod, path):
    data = json.loads(open(path).read())
    case = data["case"]
    mode = getattr(mod, "MODE", "jit")
    if hasattr(mod, "replay"):
        r = mod.replay(case)
    else:
        r = Pool(prop, mode, nworkers=1).map([case])[0]
    print(json.dumps(r, indent=1, default=jsonable)[:6000])
    if r and r.get("violations"):
        for v in r["violations"]:
            print(f"VIOLATION property={prop} replay={path}  sig={v.get('sig')}  {v.get('what','')}")
        return 1
    return 0 if status_of(r) == "held" else 2
