"""One whole run of the production (JIT) configuration, meant to be executed under valgrind memcheck by yadmon.memcheck."""
import json
import sys


def main():
    import warnings

    warnings.filterwarnings("ignore")
    from yadmon.props import c18

    case = json.load(open(sys.argv[1]))
    case["mode"] = "bounds-run"
    r = c18.run_full(case)
    print("MEMRUN-DONE " + json.dumps({"raised": r.get("raised"), "status": r.get("status", "held")}), flush=True)


if __name__ == "__main__":
    main()
