import warnings; warnings.filterwarnings("ignore")
import numpy as np, yadism, yadism.log, sys, traceback, os
yadism.log.silent_mode=True
from base import *
xg=make_grid(6,5).tolist()
for kin in [dict(x=0.0,Q2=10.),dict(x=-0.1,Q2=10.),dict(x=1.0000001,Q2=10.),dict(x=1.0,Q2=10.),dict(x=0.1,Q2=0.0),dict(x=0.1,Q2=-3.),dict(x=xg[0]*0.99,Q2=10.),dict(x=xg[0],Q2=10.),dict(x=float("nan"),Q2=10.),dict(x=0.1,Q2=float("nan")),dict(x=0.1,Q2=float("inf")),dict(x=0.1,Q2=1e-8),dict(x=0.1,Q2=1e12)]:
    for name,extra in [("F2_total",{}),("XSHERANC",dict(y=0.5))]:
        k=dict(kin); k.update(extra)
        try:
            out=yadism.run_yadism(mkth(PTO=1),mkobs({name:[k]},n=(6,5)))
            v=out[name][0]; fin=all(np.isfinite(a).all() for o,(a,e) in v.orders.items())
            print(kin,name,"returned finite" if fin else "returned NONFINITE")
        except Exception as e:
            tb=traceback.extract_tb(e.__traceback__)[-1]
            print(kin,name,type(e).__name__,str(e)[:60],os.path.basename(tb.filename),tb.lineno, "| line:",tb.line[:30])
