import warnings; warnings.filterwarnings("ignore")
import numpy as np, yadism, yadism.log, copy
yadism.log.silent_mode=True
from yadism.input import compatibility
from base import *
pts=[dict(x=0.1,Q2=20.0),dict(x=0.0123,Q2=50.)]
for fns,nf in [("ZM-VFNS",3),("FFNS",4),("FONLL-FFNS",4),("FFN0",3)]:
  for tgt in ["proton","iron",dict(Z=1.,A=2.)]:
    th=mkth(PTO=1,FNS=fns,NfFF=nf); del th["PTODIS"]; del th["FONLLParts"]; del th["RenScaleVar"]
    ob=mkobs({"F3_total":pts,"XSHERANC":[dict(x=0.1,Q2=20.,y=0.4)]},TargetDIS=tgt)
    th0=copy.deepcopy(th); ob0=copy.deepcopy(ob)
    try:
        out=yadism.run_yadism(th,ob)
    except Exception as e:
        print(fns,tgt,"EXC",repr(e)[:80]); continue
    print(fns,tgt, th==th0, ob==ob0, out.theory==th0, out.observables==ob0, out["projectilePID"], type(out["pids"]), out["xgrid"].keys() if isinstance(out["xgrid"],dict) else type(out["xgrid"]), [k for k in out if not yadism.observable_name.ObservableName.is_valid(k)])
    t1,o1=compatibility.update(th,ob); t2,o2=compatibility.update(t1,o1); print("   idem", t1==t2, o1==o2)
