import warnings; warnings.filterwarnings("ignore")
import numpy as np, yadism, yadism.log, sys
yadism.log.silent_mode=True
from base import *
from eko import basis_rotation as br
pids=list(br.flavor_basis_pids)
def nf_from(out,name,i=0):
    r=out[name][i]; a=r.orders[(2,0,1,0)][0]; b=r.orders[(1,0,0,0)][0]
    k=np.unravel_index(np.abs(b).argmax(),b.shape); b0=-a[k]/b[k]; return (11-b0)*1.5
for mc,kc in [(1.5,1.0),(1.51,2.0),(1.3,0.5),(1.51,1.3)]:
    thr=(mc*kc)**2; thr2=mc**2*kc**2
    qs=[np.nextafter(thr,0),thr,np.nextafter(thr,1e9),thr2,thr*0.9,thr*1.1]
    ob=mkobs({"F2_total":[dict(x=0.1,Q2=q) for q in qs]})
    out=yadism.run_yadism(mkth(PTO=2,mc=mc,kcThr=kc),ob)
    print(mc,kc,thr==thr2,[round(nf_from(out,"F2_total",i),6) for i in range(len(qs))])
# FFNS
out=yadism.run_yadism(mkth(PTO=2,FNS="FFNS",NfFF=4),mkobs({"F2_light":[dict(x=0.1,Q2=q) for q in [1.,5.,100.,1e5]]}))
print("FFNS4",[round(nf_from(out,"F2_light",i),6) for i in range(4)])
out=yadism.run_yadism(mkth(PTO=2,FNS="FONLL-FFNS",NfFF=4),mkobs({"F2_light":[dict(x=0.1,Q2=q) for q in [1.,5.,100.,1e5]]}))
print("FONLL4",[round(nf_from(out,"F2_light",i),6) for i in range(4)])
# C09: threshold
mc=1.0
for x in [np.nextafter(0.5,1),0.5,np.nextafter(0.5,0),0.6,0.4]:
    out=yadism.run_yadism(mkth(PTO=2,FNS="FFNS",NfFF=3,mc=mc),mkobs({"F2_charm":[dict(x=x,Q2=4.0)],"FL_charm":[dict(x=x,Q2=4.0)]}))
    r=out["F2_charm"][0]
    rows=[i for i,p in enumerate(pids) if abs(p)!=4]
    print("x=%.17g"%x,{o:float(np.abs(v[rows]).max()) for o,(v,e) in r.orders.items() if o[2]==0 and o[3]==0}, "intrinsic", float(np.abs(r.orders[(1,0,0,0)][0][pids.index(4)]).max()))
