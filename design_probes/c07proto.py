import warnings; warnings.filterwarnings("ignore")
import numpy as np, yadism, yadism.log, sys
yadism.log.silent_mode=True
from base import *
pts=[dict(x=0.1,Q2=30.0),dict(x=0.02,Q2=300.)]
def add(rs):
    tot={}
    for r in rs:
        for o,(v,e) in r.orders.items(): tot[o]=tot.get(o,0)+v
    return tot
def cmpd(a,b):
    w=0
    for o in set(a)|set(b):
        x=a.get(o,0)*np.ones(1) if not isinstance(a.get(o,0),np.ndarray) else a[o]; y=b.get(o,0)
        s=max(np.abs(x).max(),np.abs(y).max() if isinstance(y,np.ndarray) else abs(y))
        if s>0: w=max(w,np.abs(x-y).max()/s)
    return w
for proc,proj in [("NC","electron")]:
  for fns in ["FFNS","FFN0"] if False else ["FFNS"]:
    for nfff in [3,4,5]:
        for kind in ["F2","FL","F3"]:
            names=[f"{kind}_{h}" for h in ["total","light","charm","bottom","top"]]
            out=yadism.run_yadism(mkth(PTO=2,FNS=fns,NfFF=nfff),mkobs({n:pts for n in names},prDIS=proc,ProjectileDIS=proj))
            for i in range(len(pts)):
                tot={o:v for o,(v,e) in out[names[0]][i].orders.items()}
                massive=[h for h,k in zip(["charm","bottom","top"],[4,5,6]) if k>nfff]
                part=add([out[f"{kind}_light"][i]]+[out[f"{kind}_{h}"][i] for h in massive])
                allp=add([out[n][i] for n in names[1:]])
                print(proc,fns,nfff,kind,i,"light+massive %.1e"%cmpd(tot,part),"light+c+b+t %.1e"%cmpd(tot,allp))
# FONLL parts
for nfff in [3,4]:
    res={}
    for part in ["full","massless","massive"]:
        res[part]=yadism.run_yadism(mkth(PTO=2,FNS="FONLL-FFNS",NfFF=nfff,FONLLParts=part),mkobs({"F2_total":pts,"F2_charm":pts,"F2_bottom":pts}))
    for n in ["F2_total","F2_charm","F2_bottom"]:
        for i in range(2):
            print("FONLL",nfff,n,i,"%.1e"%cmpd({o:v for o,(v,e) in res["full"][n][i].orders.items()},add([res["massless"][n][i],res["massive"][n][i]])))
# nc pos charge
for kind in ["F2","F3"]:
    full=yadism.run_yadism(mkth(PTO=3),mkobs({kind+"_total":pts},prDIS="NC"))
    parts=[yadism.run_yadism(mkth(PTO=3),mkobs({kind+"_total":pts},prDIS="NC",NCPositivityCharge=q)) for q in "duscbt"]
    for i in range(2):
        print("poscharge",kind,i,"%.1e"%cmpd({o:v for o,(v,e) in full[kind+"_total"][i].orders.items()},add([p[kind+"_total"][i] for p in parts])))
