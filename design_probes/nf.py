import warnings; warnings.filterwarnings("ignore")
import numpy as np, yadism, yadism.log
yadism.log.silent_mode=True
from base import *
th=mkth(PTO=3,FNS="FFNS",NfFF=3)
for name in ["F2_total","F2_light","F2_charm","F2_bottom","F2_top","FL_total","F2"]:
    ob=mkobs({name:[dict(x=0.1,Q2=30.0),dict(x=0.4,Q2=5.0)]},n=(5,5),deg=3,prDIS="EM")
    out=yadism.run_yadism(th,ob)
    for r in out[name]:
        bad={o:(np.argwhere(~np.isfinite(v)).tolist()[:4]) for o,(v,e) in r.orders.items() if not np.all(np.isfinite(v))}
        print(name,r.x,r.Q2,bad)
