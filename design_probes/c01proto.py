import warnings; warnings.filterwarnings("ignore")
import numpy as np, yadism, yadism.log, time, sys
yadism.log.silent_mode=True
from base import *
from yadism import coefficient_functions as cf
import scipy.integrate as si
from eko import basis_rotation as br

def oracle_conv(rsl, xi, bf, nodes, is_log):
    """independent: integrate in t=ln z over [ln xi,0] with breakpoints where xi/z hits a node"""
    if xi>=1: return 0.0, 0.0
    a=rsl.args
    p=lambda u: bf.evaluate_x(u) if u<=1.0 else 0.0
    pxi=p(xi)
    lo=np.log(xi)
    brk=sorted({lo-np.log(xn) for xn in nodes if lo < lo-np.log(xn) < 0.0})
    edges=[lo]+brk+[0.0]
    tot=0.0; err=0.0
    def integrand(t):
        z=np.exp(t)
        if z>=1.0: z=np.nextafter(1.0,0)
        u=xi/z
        r=0.0
        pu=p(u) if u<=1 else 0.0
        if rsl.reg is not None: r+=rsl.reg(z,a["reg"])*pu   # dz/z = dt
        if rsl.sing is not None: r+=rsl.sing(z,a["sing"])*(pu - z*pxi)  # sing*(p/z - pxi) dz = sing*(p - z pxi) dt
        return r
    if rsl.reg is not None or rsl.sing is not None:
        for a0,b0 in zip(edges[:-1],edges[1:]):
            # last interval has endpoint singularities log^k(1-z): use quad with weight? just quad with high limit
            v,e=si.quad(integrand,a0,b0,epsabs=1e-13,epsrel=1e-11,limit=400)
            tot+=v; err+=e
    if rsl.loc is not None:
        tot+=rsl.loc(xi,a["loc"])*pxi
    return tot, err

def run(th,ob,name):
    r=yadism.Runner(th,ob)
    out=r.get_result()
    interp=r.configs.managers["interpolator"]
    nodes=interp.xgrid.raw
    worst=0; 
    for esf,res in zip(r.observables[name].elements,out[name]):
        exp={}
        scale={}
        for k in cf.Combiner(esf).collect_elems():
            xi=k.coeff.convolution_point()
            partons=np.array([k.partons.get(pid,0.0) for pid in br.flavor_basis_pids])
            for o in range(th["PTODIS"]+1):
                if not k.has_order(o): continue
                rsl=k.coeff[o]()
                if rsl is None: continue
                vec=np.array([xi*oracle_conv(rsl,xi,bf,nodes,interp.log)[0] for bf in interp])
                exp[o]=exp.get(o,0)+np.outer(partons,vec)
                scale[o]=scale.get(o,0)+np.outer(np.abs(partons),np.abs(vec))
        for o in exp:
            got=res.orders[(o,0,0,0)][0]
            d=np.abs(got-exp[o]); s=scale[o].max()
            rel=d.max()/s if s>0 else d.max()
            worst=max(worst,rel)
            print(f"  {name} x={esf.x} Q2={esf.Q2} o={o} maxabs={d.max():.3e} scale={s:.3e} rel={rel:.3e} errest={res.orders[(o,0,0,0)][1].max():.2e}")
    return worst
pts=[dict(x=0.1,Q2=20.0),dict(x=0.0123,Q2=50.),dict(x=0.7,Q2=8.)]
xg=make_grid(8,6).tolist()
pts.append(dict(x=xg[5],Q2=20.))
t0=time.time()
run(mkth(PTO=3,RenScaleVar=False,FactScaleVar=False), mkobs({"F2_total":pts}), "F2_total")
run(mkth(PTO=2,FNS="FFNS",RenScaleVar=False,FactScaleVar=False), mkobs({"F2_charm":pts}), "F2_charm")
run(mkth(PTO=1,FNS="FFNS",RenScaleVar=False,FactScaleVar=False), mkobs({"F3_charm":pts},prDIS="CC",ProjectileDIS="neutrino"), "F3_charm")
run(mkth(PTO=3,RenScaleVar=False,FactScaleVar=False), mkobs({"F3_total":pts},prDIS="CC",ProjectileDIS="neutrino"), "F3_total")
print("time",time.time()-t0)
