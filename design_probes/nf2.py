import warnings; warnings.filterwarnings("ignore")
import numpy as np, yadism, yadism.log
yadism.log.silent_mode=True
from base import *
from yadism.esf import conv
from yadism import coefficient_functions as cf
th=mkth(PTO=3,FNS="FFNS",NfFF=3)
ob=mkobs({"F2_charm":[dict(x=0.1,Q2=30.0)]},n=(5,5),deg=3,prDIS="EM")
r=yadism.Runner(th,ob)
esf=r.observables["F2_charm"].elements[0]
for k in cf.Combiner(esf).collect_elems():
    for o in range(4):
        rsl=k.coeff[o]()
        if rsl is None: continue
        v,e=conv.convolve_vector(rsl, r.configs.managers["interpolator"], k.coeff.convolution_point())
        print(type(k.coeff).__name__, o, np.isfinite(v).all(), v[:6])
