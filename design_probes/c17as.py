import warnings; warnings.filterwarnings("ignore")
import numpy as np, yadism, yadism.log
yadism.log.silent_mode=True
from base import *
from yadism.esf import result as R
from scipy.integrate import solve_ivp
cap={}
orig=R.ESFResult.apply_pdf
def spy(self,lh,pids,xgrid,alpha_s,alpha_qed,xiR,xiF):
    cap["as"]=alpha_s; return orig(self,lh,pids,xgrid,alpha_s,alpha_qed,xiR,xiF)
R.ESFResult.apply_pdf=spy
class Toy:
    def hasFlavor(s,pid): return pid!=22
    def xfxQ2(s,pid,x,Q2): return x*(1-x)
z3=1.2020569031595942
def betas(nf):
    b0=11-2*nf/3; b1=102-38*nf/3; b2=2857/2-5033/18*nf+325/54*nf**2
    return [b0,b1,b2]
def ref(a0,mu0,mu,nf,order):
    b=betas(nf)[:order+1]
    f=lambda t,a: -sum(bk*a**(k+2) for k,bk in enumerate(b))
    s=solve_ivp(f,[np.log(mu0**2),np.log(mu**2)],[a0],rtol=1e-12,atol=1e-14)
    return s.y[0,-1]
for fns,nfff,nfref,pto,Qref in [("FFNS",4,4,0,91.2),("FFNS",4,4,1,91.2),("FFNS",4,4,2,91.2),("FFNS",3,3,2,2.0),("FFN0",5,5,1,91.2),("ZM-VFNS",3,5,2,91.2),("ZM-VFNS",3,5,1,91.2)]:
    th=mkth(PTO=pto,FNS=fns,NfFF=nfff,nfref=nfref,Qref=Qref,alphas=0.118 if Qref>50 else 0.30)
    try:
        out=yadism.run_yadism(th,mkobs({"F3_total":[dict(x=0.1,Q2=20.)]},prDIS="CC",ProjectileDIS="neutrino"))
        out.apply_pdf(Toy())
    except Exception as e:
        print(fns,nfff,pto,"EXC",repr(e)[:100]); continue
    a=cap["as"]
    a0=th["alphas"]/(4*np.pi)
    row=[]
    for mu in ([5.,10.,50.,91.2,300.] if fns!="ZM-VFNS" else [6.,20.,91.2,150.]):   # ZM: stay in nf=5 region (mb=4.92, mt=172.5)
        nf=nfff if fns!="ZM-VFNS" else 5
        r=ref(a0,Qref,mu,nf,pto)*4*np.pi
        row.append("%.1e"%(abs(a(mu)/r-1)))
    print(fns,nfff,"pto",pto,"as(Qref)=%.6f"%a(Qref),"rel dev from own RGE:",row)
