import warnings; warnings.filterwarnings("ignore")
import numpy as np, scipy.integrate as si
from yadism.coefficient_functions.heavy import f2_nc as h
from yadism.coefficient_functions.asy import f2_nc as a
class E: 
    def __init__(s,x,Q2): s.x=x; s.Q2=Q2
def mom(rsl,N):
    if rsl is None: return 0.0
    A=rsl.args; tot=0
    f=lambda z: (rsl.reg(z,A["reg"])*z**(N-1) if rsl.reg else 0)+((z**(N-1)-1)*rsl.sing(z,A["sing"]) if rsl.sing else 0)
    tot=si.quad(f,1e-12,1-1e-12,limit=500,epsabs=1e-12,epsrel=1e-10,points=[1e-6,1e-3,0.5,0.9,0.99,0.999])[0]
    if rsl.loc: tot+=rsl.loc(0.0,A["loc"])
    return tot
for xi in [1e1,1e2,1e3,1e4,1e5,1e6,1e7]:
    e=E(1e-4,xi)
    hm=h.NonSinglet(e,3,m2hq=1.0)
    am=[c(e,3,m2hq=1.0) for c in (a.AsyLLNonSinglet,a.AsyNLLNonSinglet,a.AsyNNLLNonSinglet)]
    row=[]
    for N in [1,2,4,8]:
        mh=mom(hm.NNLO(),N); ma=sum(mom(c.NNLO(),N) for c in am)
        row.append("N=%d h=%.5f a=%.5f"%(N,mh,ma))
    print("xi=%.0e"%xi," | ".join(row))
