import warnings; warnings.filterwarnings("ignore")
import numpy as np, yadism, yadism.log
yadism.log.silent_mode=True
from base import *
CONV=3.893793e10
def ref(kind,x,y,Q2,proj,MP,MW,GF):
    yp=1+(1-y)**2; ym=1-(1-y)**2; yL=y*y
    sgn=-1 if proj in ("positron","antineutrino") else 1
    if kind=="F1": return (1,-1,0)
    if kind=="g5": return (1,-1,0)
    if kind=="XSHERANCAVG": return (1,-yL/yp,0)
    if kind=="XSHERANC": return (1,-yL/yp,sgn*ym/yp)
    if kind=="XSHERACC": N=0.25; return (N*yp,-N*yL,sgn*N*ym)
    if kind=="FW":
        yLw=y*y/(2*(y*y/2+(1-y)-(MP*x*y)**2/Q2)); return (1.0,-yLw,0.0)
    ypc=yp-2*(MP*x*y)**2/Q2
    if kind=="XSCHORUSCC": N=CONV*GF**2*MP/(2*np.pi*(1+Q2/MW**2)**2); return (N*ypc,-N*yL,sgn*N*ym)
    if kind=="XSNUTEVCC": N=100/(2*(1+Q2/MW**2)**2); return (N*ypc,-N*yL,sgn*N*ym)
    if kind=="XSNUTEVNU": N=CONV*GF**2*MP/(2*np.pi); return (N*ypc,-N*yL,sgn*N*ym)
    if kind=="XSFPFCC":
        # d sigma/dx dQ2 = (1/E) dsigma/dxdy [CHORUS form without the M_h^2 term in y+] /(2 M x) -> GF^2/(4 pi x (1+Q2/MW2)^2), in pb
        N=(CONV/100)*GF**2/(4*np.pi*x*(1+Q2/MW**2)**2); return (N*yp,-N*yL,sgn*N*ym)
rng=np.random.default_rng(3)
worst={}
for kind in ["XSHERANC","XSHERANCAVG","XSHERACC","XSCHORUSCC","XSNUTEVCC","XSNUTEVNU","FW","F1","g5","XSFPFCC"]:
    for it in range(6):
        proj=rng.choice(["electron","positron","neutrino","antineutrino"]); proc="CC" if "CC" in kind or kind in("FW","XSNUTEVNU") else "NC"
        if kind=="g5": proc="NC"
        x=rng.uniform(0.01,0.8); y=rng.uniform(0.01,1.0); Q2=10**rng.uniform(0.5,3.5); hv=rng.choice(["total","light","charm"])
        names=["F2","FL","F3"] if kind!="g5" else ["g4","gL","g1"]
        kin=dict(x=x,Q2=Q2,y=y)
        ob=mkobs({f"{kind}_{hv}":[kin],**{f"{n}_{hv}":[dict(x=x,Q2=Q2)] for n in names}},prDIS=proc,ProjectileDIS=proj)
        th=mkth(PTO=1,FNS="FFNS",NfFF=3,MP=0.9,MW=80.4,GF=1.16e-5)
        try: out=yadism.run_yadism(th,ob)
        except Exception as e: print(kind,proj,proc,hv,"EXC",repr(e)[:60]); continue
        c=ref(kind,x,y,Q2,proj,0.9,80.4,1.16e-5)
        xs=out[f"{kind}_{hv}"][0]
        for o,(v,e) in xs.orders.items():
            exp=sum(ci*out[f"{n}_{hv}"][0].orders[o][0] for ci,n in zip(c,names))
            s=sum(abs(ci)*np.abs(out[f"{n}_{hv}"][0].orders[o][0]).max() for ci,n in zip(c,names))
            if s>0: worst[kind]=max(worst.get(kind,0),np.abs(v-exp).max()/s)
print(worst)
