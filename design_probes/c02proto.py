import warnings; warnings.filterwarnings("ignore")
import numpy as np, yadism, yadism.log, sys
yadism.log.silent_mode=True
from base import *
from eko import basis_rotation as br
pids=list(br.flavor_basis_pids)
rng=np.random.default_rng(1)
def oracle_nc(kind, q, Q2, s2, MZ, pol, proj, dcorr, process):
    # PDG conventions; lepton: charge Ql, T3l
    Ql,T3l={"electron":(-1,-.5),"positron":(-1,-.5),"neutrino":(0,.5),"antineutrino":(0,.5)}[proj]
    lam = pol if proj in ("positron","neutrino") else -pol   # effective helicity sign entering (v + lam a): yadism convention: e-: -P, e+: +P
    eq=2/3 if q%2==0 else -1/3; T3q=.5 if q%2==0 else -.5
    vq=T3q-2*eq*s2; aq=T3q
    vl=T3l-2*Ql*s2; al=T3l
    eta=Q2/(Q2+MZ**2)/(4*s2*(1-s2))/(1-dcorr)
    if process=="EM": eta=0
    if kind in ("F2","FL","g1"):   # parity conserving: VV+AA
        w = Ql**2*eq**2 + 2*Ql*(vl+lam*al)*eta*eq*vq + (vl**2+al**2+2*lam*vl*al)*eta**2*(vq**2+aq**2)
    else:  # F3,g4,gL: VA+AV
        w = 2*Ql*(al+lam*vl)*eta*eq*aq + (2*vl*al+lam*(vl**2+al**2))*eta**2*2*vq*aq
    return w
worst=0
for it in range(40):
    kind=rng.choice(["F2","F3","g1","g4","gL","FL"]); proj=rng.choice(["electron","positron","neutrino","antineutrino"]); process=rng.choice(["EM","NC"])
    s2=rng.uniform(0.05,0.9); MZ=rng.uniform(20,200); pol=rng.uniform(-1,1); dc=rng.uniform(0,0.3); Q2=10**rng.uniform(0.5,4.5)
    xg=make_grid(6,5).tolist(); k=4; x=xg[k]
    ob=mkobs({f"{kind}_total":[dict(x=x,Q2=Q2)]},n=(6,5),prDIS=process,ProjectileDIS=proj,PolarizationDIS=pol,PropagatorCorrection=dc)
    out=yadism.run_yadism(mkth(PTO=0,SIN2TW=s2,MZ=MZ),ob)
    v=out[f"{kind}_total"][0].orders[(0,0,0,0)][0]
    nf=3+sum(Q2>=m*m for m in (1.51,4.92,172.5))
    for q in range(1,7):
        for sgn in (1,-1):
            exp=np.zeros(len(xg))
            if q<=nf and kind not in ("FL","gL"):
                w=oracle_nc(kind,q,Q2,s2,MZ,pol,proj,dc,process)
                if kind in ("F3","g4") and sgn<0: w=-w
                exp[k]=x*w
            got=v[pids.index(sgn*q)]
            d=np.abs(got-exp).max(); worst=max(worst,d)
            if d>1e-9: print("MISMATCH",kind,proj,process,q,sgn,got[k],exp[k])
print("worst",worst)
