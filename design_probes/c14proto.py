import warnings; warnings.filterwarnings("ignore")
import numpy as np, yadism, yadism.log, time, sys, copy
yadism.log.silent_mode=True
from base import *
def same(a,b):
    if set(a.orders)!=set(b.orders): return False
    return all(np.array_equal(a.orders[o][0],b.orders[o][0]) and np.array_equal(a.orders[o][1],b.orders[o][1]) for o in a.orders)
pts=[dict(x=0.1,Q2=20.0),dict(x=0.0123,Q2=50.),dict(x=0.3,Q2=20.),dict(x=0.1,Q2=20.0)]
for tmc in [0,1,3]:
  for fns in ["ZM-VFNS","FFNS"]:
    th=mkth(PTO=2,TMC=tmc,FNS=fns)
    A=yadism.run_yadism(th,mkobs({"F2_total":pts,"FL_total":pts[:2]}))
    B=yadism.run_yadism(th,mkobs({"FL_total":pts[:2][::-1],"XSHERANC_total":[dict(x=0.1,Q2=20.,y=0.4),dict(x=0.3,Q2=20.,y=0.2)],"F2_total":pts[::-1],"F3_total":pts,"F2_charm":pts}))
    ok=all(same(A["F2_total"][i],B["F2_total"][len(pts)-1-i]) for i in range(len(pts))) and all(same(A["FL_total"][i],B["FL_total"][1-i]) for i in range(2))
    r=yadism.Runner(th,mkobs({"F2_total":pts}))
    o1=r.get_result(); o2=r.get_result()
    ok2=all(same(o1["F2_total"][i],o2["F2_total"][i]) and same(o1["F2_total"][i],A["F2_total"][i]) for i in range(len(pts)))
    print(tmc,fns,ok,ok2)
