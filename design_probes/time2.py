import time, warnings, sys
warnings.filterwarnings("ignore")
import yadism, yadism.log
yadism.log.silent_mode=True
from base import *
def run(label, th, ob):
    t0=time.time()
    try:
        out=yadism.run_yadism(th,ob)
        msg="ok"
    except Exception as e:
        msg=repr(e)[:200]
    print(f"{label:40s} {time.time()-t0:8.2f}s {msg}", flush=True)
pt=[dict(x=0.1,Q2=20.0)]
run("ZM F2_total N3LO noSV", mkth(PTO=3,RenScaleVar=False,FactScaleVar=False), mkobs({"F2_total":pt}))
run("ZM F2_total N3LO SV", mkth(PTO=3), mkobs({"F2_total":pt}))
run("FFNS3 F2_charm NLO", mkth(PTO=1,FNS="FFNS"), mkobs({"F2_charm":pt}))
run("FFNS3 F2_charm NNLO", mkth(PTO=2,FNS="FFNS"), mkobs({"F2_charm":pt}))
run("FFNS3 F2_total NNLO", mkth(PTO=2,FNS="FFNS"), mkobs({"F2_total":pt}))
run("FFNS3 F2_charm N3LO", mkth(PTO=3,FNS="FFNS"), mkobs({"F2_charm":pt}))
run("FFN0 F2_charm NNLO", mkth(PTO=2,FNS="FFN0"), mkobs({"F2_charm":pt}))
run("FFNS3 CC F2_charm NLO", mkth(PTO=1,FNS="FFNS"), mkobs({"F2_charm":pt},prDIS="CC",ProjectileDIS="neutrino"))
run("FFN0 CC F2_charm NLO", mkth(PTO=1,FNS="FFN0"), mkobs({"F2_charm":pt},prDIS="CC",ProjectileDIS="neutrino"))
run("ZM TMC exact F2 NLO", mkth(PTO=1,TMC=3), mkobs({"F2_total":pt}))
run("ZM XSHERANC NLO", mkth(PTO=1), mkobs({"XSHERANC":[dict(x=0.1,Q2=20.,y=0.5)]}))
run("FFNS3 g1_charm NNLO", mkth(PTO=2,FNS="FFNS"), mkobs({"g1_charm":pt}))
run("FONLL-FFNS F2_total NLO nf4", mkth(PTO=1,FNS="FONLL-FFNS",NfFF=4), mkobs({"F2_total":pt}))
