import warnings; warnings.filterwarnings("ignore")
import numpy as np, yadism, yadism.log, copy, time
yadism.log.silent_mode=True
from base import *
class Toy:
    def __init__(s,a,b): s.a=a; s.b=b
    def hasFlavor(s,pid): return pid!=22
    def xfxQ2(s,pid,x,Q2):
        c={21:1.5}.get(pid,0.3+0.05*pid)
        return c*x**s.a*(1-x)**s.b
pdf=Toy(-0.2,3.0)
def pred(n,deg,log=True,pto=2,x=0.1,kind="F2_total",**kw):
    ob=mkobs({kind:[dict(x=x,Q2=20.)]},n=n,deg=deg,interpolation_is_log=log)
    t0=time.time()
    out=yadism.run_yadism(mkth(PTO=pto,**kw),ob)
    r=out.apply_pdf_alphas_alphaqed_xir_xif(pdf,lambda q:0.2,lambda q:1/137,1.3,0.7)[kind][0]["result"]
    return r,time.time()-t0
for kind in ["F2_total","FL_total","F3_total"]:
  for x in [0.1,0.001,0.6]:
    ref=pred((40,30),5,x=x,kind=kind)
    for n,deg in [((10,10),3),((15,15),4),((25,20),4),((30,20),5),((20,30),4)]:
        p=pred(n,deg,x=x,kind=kind)
        print(kind,x,n,deg,"rel diff to ref %.2e"%(abs(p[0]/ref[0]-1)),"t=%.1f"%p[1])
    print("ref time",ref[1])
