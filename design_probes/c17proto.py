import warnings; warnings.filterwarnings("ignore")
import numpy as np, yadism, yadism.log, sys
yadism.log.silent_mode=True
from base import *
from yadism.esf import result as R
class Toy:
    def hasFlavor(s,pid): return pid not in (22,6,-6)
    def xfxQ2(s,pid,x,Q2):
        return (0.3+0.05*pid)*x**-0.2*(1-x)**3*(1+0.1*np.log(Q2))
cap={}
orig=R.ESFResult.apply_pdf
def spy(self,lh,pids,xgrid,alpha_s,alpha_qed,xiR,xiF):
    cap["as"]=alpha_s; cap["aq"]=alpha_qed; cap["xi"]=(xiR,xiF)
    return orig(self,lh,pids,xgrid,alpha_s,alpha_qed,xiR,xiF)
R.ESFResult.apply_pdf=spy
for fns,nfff,pto in [("ZM-VFNS",3,2),("FFNS",4,1),("FFNS",3,0),("FONLL-FFNS",4,1)]:
    th=mkth(PTO=pto,FNS=fns,NfFF=nfff,XIR=1.3,XIF=0.8)
    out=yadism.run_yadism(th,mkobs({"F2_total":[dict(x=0.1,Q2=20.)]}))
    try:
        p=out.apply_pdf(Toy())
        a=cap["as"]
        print(fns,nfff,pto,p["F2_total"][0]["result"],"as(MZ=91.2)",a(91.2),"as(2)",a(2.0),"as(100)",a(100.),cap["xi"])
    except Exception as e:
        import traceback; traceback.print_exc(limit=3)
        print(fns,"EXC",repr(e)[:200])
