import warnings; warnings.filterwarnings("ignore")
import numpy as np
from yadism.coefficient_functions.asy import g1_nc as a
from yadism.coefficient_functions.heavy import g1_nc as h
class E:
    def __init__(s,x,Q2): s.x=x; s.Q2=Q2
def val(rsl,z): return rsl.reg(z,rsl.args["reg"]) if rsl is not None and rsl.reg is not None else 0.0
for chan,hc,ac in [("gluon",h.GluonVV,[a.AsyLLGluon,a.AsyNLLGluon,a.AsyNNLLGluon]),("singlet",h.SingletVV,[a.AsyLLSinglet,a.AsyNLLSinglet,a.AsyNNLLSinglet])]:
    for order in ["NLO","NNLO"]:
        for xi in [1e1,1e2,1e3,1.4e3]:
            e=E(1e-3,xi); hh=hc(e,3,m2hq=1.0); aa=[c(e,3,m2hq=1.0) for c in ac]
            row=[]
            for z in [0.01,0.1,0.3,0.6]:
                try:
                    hv=val(getattr(hh,order)(),z)
                except Exception as ex:
                    hv=float("nan")
                av=sum(val(getattr(c,order)(),z) for c in aa)
                row.append("z=%.2f h=%.4g a=%.4g"%(z,hv,av))
            print(chan,order,"xi=%.0e"%xi," | ".join(row))
