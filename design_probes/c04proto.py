import warnings; warnings.filterwarnings("ignore")
import numpy as np, scipy.integrate as si
from yadism.coefficient_functions.light import f3_nc,f3_cc,f2_cc,f2_nc,g1_nc,fl_cc
class E:
    x=0.1;Q2=10.
def mom(rsl,N):
    A=rsl.args
    f=lambda z: (rsl.reg(z,A["reg"])*z**(N-1) if rsl.reg else 0)+((z**(N-1)-1)*rsl.sing(z,A["sing"]) if rsl.sing else 0)
    tot=si.quad(f,0,1,limit=800,epsabs=1e-11,epsrel=1e-11,points=[1e-8,1e-5,1e-3,0.5,0.9,0.99,0.999,0.99999])[0]
    if rsl.loc: tot+=rsl.loc(0.0,A["loc"])
    return tot
z3=1.2020569031595942
for nf in [3,4,5,6]:
    gls=[1,-4,16*(-55/12+nf/3),64*(-41.4399+7.6073*nf-0.17747*nf**2)]
    f3=f3_nc.NonSinglet(E,nf); g1=g1_nc.NonSinglet(E,nf); ad=f2_cc.NonSingletOdd(E,nf); flodd=fl_cc.NonSingletOdd(E,nf)
    val=f3_nc.Valence(E,nf)
    print("nf",nf,"GLS exp",["%.4f"%g for g in gls])
    print("   F3 NS  ",["%.4f"%mom(f3[o](),1) for o in range(4)])
    print("   g1 NS  ",["%.4f"%mom(g1[o](),1) for o in range(3)])
    print("   Adler  ",["%.5f"%mom(ad[o](),1) for o in range(4)], "(LO delta=1 expected: F2 nu-nubar N=1 -> ?)")
    print("   valence N3LO N=1 %.4f"%mom(val[3](),1), "exp lbl", 64*nf*(10/3)*(-11/144+z3/6))
