import time, sys, copy, os
import numpy as np
t0=time.time()
import yadism, yadism.log
yadism.log.silent_mode=True
print("import", time.time()-t0)
from eko.interpolation import make_grid
theory = dict(
    PTO=1, PTODIS=1, FNS="ZM-VFNS", NfFF=3, nf0=3,
    mc=1.51, mb=4.92, mt=172.5, kcThr=1.0,kbThr=1.0,ktThr=1.0,
    MaxNfPdf=6, MP=0.938, Q0=1.65, HQ="POLE", TMC=0,
    RenScaleVar=True, FactScaleVar=True,
    CKM="0.97428 0.22530 0.003470 0.22520 0.97345 0.041000 0.00862 0.04030 0.999152",
    MW=80.398, MZ=91.1876, GF=1.1663787e-5, SIN2TW=0.23126, FONLLParts="full", n3lo_cf_variation=0,
    alphas=0.118, Qref=91.2, nfref=5, alphaqed=0.007496252, QED=0, ModEv="EXA", XIF=1.0, XIR=1.0, Qmc=1.51,Qmb=4.92,Qmt=172.5, IC=0, IB=0, kDIScThr=1.0,kDISbThr=1.0,kDIStThr=1.0,
)
xgrid = make_grid(10,10).tolist() if len(sys.argv)<2 else make_grid(int(sys.argv[1]),int(sys.argv[2])).tolist()
obs = dict(
    interpolation_xgrid=xgrid, interpolation_polynomial_degree=4, interpolation_is_log=True,
    prDIS="NC", TargetDIS="proton", ProjectileDIS="electron", PolarizationDIS=0.0, PropagatorCorrection=0.0, NCPositivityCharge=None,
    observables={"F2_total":[dict(x=0.1,Q2=10.0),dict(x=0.01,Q2=100.0)], "FL_light":[dict(x=0.1,Q2=10.0)]},
)
for pto in [0,1,2]:
    th=dict(theory); th["PTO"]=pto; th["PTODIS"]=pto
    t0=time.time()
    out = yadism.run_yadism(th, obs)
    print("pto",pto,"run", time.time()-t0, len(xgrid))
    r=out["F2_total"][0]
    print(sorted(r.orders.keys()))
