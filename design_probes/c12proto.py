import warnings; warnings.filterwarnings("ignore")
import numpy as np, yadism, yadism.log, sys
yadism.log.silent_mode=True
from base import *
from eko import basis_rotation as br
pids=list(br.flavor_basis_pids)
pts=[dict(x=0.1,Q2=20.0)]
def chk(th,name,tgt,proc="NC",proj="electron"):
    P=yadism.run_yadism(th,mkobs({name:pts},prDIS=proc,ProjectileDIS=proj))[name][0]
    T=yadism.run_yadism(th,mkobs({name:pts},TargetDIS=tgt,prDIS=proc,ProjectileDIS=proj))[name][0]
    Z,A=tgt["Z"],tgt["A"]
    worst=0
    for o in P.orders:
        p=P.orders[o][0]; t=T.orders[o][0]; e=p.copy()
        for s in (1,-1):
            iu,idn=pids.index(2*s),pids.index(1*s)
            e[iu]=(Z*p[iu]+(A-Z)*p[idn])/A; e[idn]=(Z*p[idn]+(A-Z)*p[iu])/A
        sc=np.abs(p).max()
        if sc>0: worst=max(worst,np.abs(t-e).max()/sc)
    print(th["FNS"],th["PTO"],name,tgt,proc,"worst",worst)
for fns in ["ZM-VFNS","FFNS","FFN0"]:
    for tgt in [dict(Z=0.,A=1.),dict(Z=23.4,A=49.6)]:
        for pto in [1,2]:
            chk(mkth(PTO=pto,FNS=fns),"F2_total",tgt)
        chk(mkth(PTO=1,FNS=fns),"F3_total",tgt,"CC","neutrino")
