import numpy as np, scipy.integrate as si, importlib, itertools, warnings
warnings.filterwarnings("ignore")
from yadism.coefficient_functions import splitting_functions as split
from yadism.coefficient_functions.partonic_channel import RSL

def check(name, rsl, xs=(0.01,0.1,0.3,0.5,0.7,0.9,0.99)):
    if rsl is None or rsl.loc is None: return
    a=rsl.args
    loc=lambda x: rsl.loc(x,a["loc"])
    x0=1e-6
    worst=0
    for x in xs:
        if rsl.sing is None:
            integ=0.0
        else:
            integ,err=si.quad(lambda z: rsl.sing(z,a["sing"]), x0, x, epsabs=1e-12,epsrel=1e-12, limit=200)
        d=(loc(x)-loc(x0)) + integ
        scale=max(abs(loc(x)),abs(integ),1e-10)
        worst=max(worst,abs(d)/scale)
    flag = "BAD" if worst>1e-6 else "ok"
    print(f"{flag:4s} {name:50s} worst_rel={worst:.3e}")

for lab in split.raw_labels:
    for k,f in lab.items():
        for nf in (3,5):
            check(f"split {k} nf={nf}", f(nf))

class FakeESF:
    def __init__(s,x,Q2): s.x=x; s.Q2=Q2
for kind,proc in itertools.product(["f2","fl","f3","g1","gl","g4"],["nc","cc"]):
    try:
        m=importlib.import_module(f"yadism.coefficient_functions.light.{kind}_{proc}")
    except Exception as e:
        print("noimport",kind,proc,e); continue
    for cname in dir(m):
        c=getattr(m,cname)
        if not isinstance(c,type) or not hasattr(c,"NLO") : continue
        for nf in (3,5):
            try: inst=c(FakeESF(0.1,10.),nf)
            except Exception as e: print("noinst",cname,e); continue
            for o in range(4):
                try: rsl=inst[o]()
                except Exception as e: print("ERR",kind,proc,cname,o,repr(e)); continue
                try: check(f"light {kind}_{proc}.{cname}[{o}] nf={nf}", rsl)
                except Exception as e: print("ERRCHK",kind,proc,cname,o,repr(e))
