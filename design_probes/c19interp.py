import warnings; warnings.filterwarnings("ignore")
import numpy as np, yadism, yadism.log
yadism.log.silent_mode=True
from base import *
from eko.interpolation import InterpolatorDispatcher, XGrid, make_grid
import scipy.integrate as si
from yadism import coefficient_functions as cf
from eko import basis_rotation as br
pids=list(br.flavor_basis_pids)
a,b=-0.2,3.0
def f(pid,x): return ({21:1.5}.get(pid,0.3+0.05*pid))*x**a*(1-x)**b/x   # f = xf/x
class Toy:
    def hasFlavor(s,pid): return pid!=22
    def xfxQ2(s,pid,x,Q2): return f(pid,x)*x
def eps_interp(xg,deg,x):
    it=InterpolatorDispatcher(XGrid(xg,True),deg,mode_N=False)
    us=np.exp(np.linspace(np.log(x),0,4001))[:-1]
    g=lambda u: u**a*(1-u)**b/u
    approx=np.array([sum(g(xn)*bf.evaluate_x(u) for xn,bf in zip(xg,it) ) for u in us])
    exact=g(us)
    return np.max(np.abs(approx-exact)/np.max(np.abs(exact)*0+np.abs(exact)+1e-300)), np.max(np.abs(approx-exact))/np.max(np.abs(exact))
def truth(th,ob,name,x):
    r=yadism.Runner(th,ob); esf=r.observables[name].elements[0]
    tot={}
    for k in cf.Combiner(esf).collect_elems():
        xi=k.coeff.convolution_point()
        for o in range(th["PTODIS"]+1):
            if not k.has_order(o): continue
            rsl=k.coeff[o]()
            if rsl is None: continue
            A=rsl.args
            fp=lambda u: sum(w*f(p,u) for p,w in k.partons.items())
            val=0
            if rsl.reg is not None or rsl.sing is not None:
                def integrand(t):
                    z=np.exp(t); z=min(z,np.nextafter(1.0,0))
                    r_=0
                    if rsl.reg is not None: r_+=rsl.reg(z,A["reg"])*fp(xi/z)
                    if rsl.sing is not None: r_+=rsl.sing(z,A["sing"])*(fp(xi/z)-z*fp(xi))
                    return r_
                val=si.quad(integrand,np.log(xi),0,epsabs=1e-13,epsrel=1e-11,limit=500)[0]
            if rsl.loc is not None: val+=rsl.loc(xi,A["loc"])*fp(xi)
            tot[o]=tot.get(o,0)+xi*val
    return tot
for x in [0.1,0.001,0.6]:
    for n,deg in [((10,10),3),((15,15),4),((25,20),4),((30,20),5),((20,30),4),((40,30),5)]:
        xg=make_grid(*n).tolist()
        ob=mkobs({"F2_total":[dict(x=x,Q2=20.)]},n=n,deg=deg)
        th=mkth(PTO=2,RenScaleVar=False,FactScaleVar=False)
        out=yadism.run_yadism(th,ob)
        r=out["F2_total"][0]
        fv=np.array([[f(pid,z) for z in xg] for pid in out["pids"]])
        pred={o[0]:(v*fv).sum() for o,(v,e) in r.orders.items() if o[2]==0 and o[3]==0}
        tr=truth(th,ob,"F2_total",x)
        e1,e2=eps_interp(xg,deg,x)
        print(x,n,deg,"eps_rel_pointwise %.1e eps_rel_max %.1e"%(e1,e2)," err/|truth| by order:",{o:"%.1e"%(abs(pred[o]-tr[o])/abs(tr[o])) for o in tr})
