import warnings; warnings.filterwarnings("ignore")
import numpy as np, yadism, yadism.log, sys
yadism.log.silent_mode=True
from base import *
from eko import basis_rotation as br
pids=list(br.flavor_basis_pids)
pts=[dict(x=0.1,Q2=2000.0),dict(x=0.3,Q2=30.)]
def T(th,ob,name): return yadism.run_yadism(th,ob)[name]
def cmp(A,B,f=lambda o,a:a):
    w=0
    for a,b in zip(A,B):
        for o in a.orders:
            x=f(o,a.orders[o][0]); y=b.orders[o][0]; s=max(np.abs(x).max(),np.abs(y).max())
            if s>0: w=max(w,np.abs(x-y).max()/s)
    return w
for kind in ["F2","FL","F3","g1","g4","gL"]:
    name=kind+"_total"
    for fns in ["ZM-VFNS","FFNS"]:
        th=mkth(PTO=2,FNS=fns)
        # NC->EM
        em=T(th,mkobs({name:pts},prDIS="EM"),name)
        nc=T(mkth(PTO=2,FNS=fns,MZ=1e12,MW=1e12),mkobs({name:pts},prDIS="NC"),name)
        a=cmp(em,nc)
        # pol flip
        ep=T(th,mkobs({name:pts},prDIS="NC",ProjectileDIS="positron",PolarizationDIS=0.37),name)
        emn=T(th,mkobs({name:pts},prDIS="NC",ProjectileDIS="electron",PolarizationDIS=-0.37),name)
        b=cmp(ep,emn)
        # d<->s rows
        r=emn[0]; c=max(np.abs(r.orders[o][0][pids.index(1)]-r.orders[o][0][pids.index(3)]).max() for o in r.orders)
        print(kind,fns,"NC->EM %.2e"%a,"pol %.2e"%b,"d-s %.2e"%c)
for kind in ["F2","FL","F3"]:
    name=kind+"_total"
    for fns in ["ZM-VFNS","FFNS"]:
        th=mkth(PTO=2,FNS=fns,CKM="0.9 0.3 0.1 0.25 0.8 0.2 0.05 0.15 0.7")
        nu=T(th,mkobs({name:pts},prDIS="CC",ProjectileDIS="neutrino"),name)
        nb=T(th,mkobs({name:pts},prDIS="CC",ProjectileDIS="antineutrino"),name)
        ep=T(th,mkobs({name:pts},prDIS="CC",ProjectileDIS="positron"),name)
        sgn=-1 if kind=="F3" else 1
        perm=[pids.index(-p) if p not in (21,22) else pids.index(p) for p in pids]
        d=cmp(nu,nb,lambda o,a: sgn*a[perm])
        print(kind,fns,"CC conj %.2e"%d,"e+ vs nu %.2e"%cmp(nu,ep))
