import warnings; warnings.filterwarnings("ignore")
import numpy as np, yadism, yadism.log, sys
yadism.log.silent_mode=True
from base import *
from yadism import coefficient_functions as cf
from yadism.esf import conv
from eko import basis_rotation as br
pids=list(br.flavor_basis_pids)
def beta0(nf): return 11-2*nf/3
def run(th,ob,name):
    r=yadism.Runner(th,ob); out=r.get_result()
    interp=r.configs.managers["interpolator"]; sv=r.configs.managers["sv_manager"]
    n=len(interp.xgrid)
    for esf,res in zip(r.observables[name].elements,out[name]):
        comb=cf.Combiner(esf); nf=comb.nf
        M={l:sv.operators[(l,nf)] for (l,nff) in sv.operators if nff==nf}
        I=np.eye(n); b0=beta0(nf)
        exp={}
        def add(key,T): exp[key]=exp.get(key,0)+T
        act=[q for q in range(1,nf+1)]+[-q for q in range(1,nf+1)]
        for k in comb.collect_elems():
            w=np.array([k.partons.get(p,0.0) for p in pids])
            xi=k.coeff.convolution_point()
            v={}
            for o in range(th["PTODIS"]+1):
                if not k.has_order(o): continue
                rsl=k.coeff[o]()
                if rsl is None: continue
                v[o]=xi*conv.convolve_vector(rsl,interp,xi)[0]
            # flavour-space DGLAP action: returns tensor (14,n) for C(order o) ⊗ P^(level), P0 with optional -c*beta0
            def actP(o, level, sub):   # sub: multiple of beta0 subtracted from diagonal
                T=np.zeros((14,n)); 
                if o not in v: return T
                vo=v[o]
                wq={p:w[pids.index(p)] for p in act}; wg=w[pids.index(21)]
                sumq=sum(wq.values())
                # decompose quark weights: for each flavour q: plus = (w_q + w_qbar)/2, minus=(w_q - w_qbar)/2
                if level==0:
                    Pqq=M["P_qq_0"]-sub*b0*I; Pqg=M["P_qg_0"]; Pgq=M.get("P_gq_0"); Pgg=(M["P_gg_0"]-sub*b0*I) if "P_gg_0" in M else None
                    for p in act: T[pids.index(p)]+=wq[p]*(Pqq@vo)
                    T[pids.index(21)]+=sumq/(2*nf)*(Pqg@vo)
                    if wg!=0:
                        for p in act: T[pids.index(p)]+=wg*(Pgq@vo)
                        T[pids.index(21)]+=wg*(Pgg@vo)
                else:
                    Pp=M["P_nsp_1"]; Pm=M["P_nsm_1"]; Pqq=M["P_qq_1"]; Pqg=M["P_qg_1"]
                    Pps=Pqq-Pp  # pure singlet
                    for q in range(1,nf+1):
                        a=wq[q]; b=wq[-q]
                        plus=(a+b)/2; minus=(a-b)/2
                        # coefficient of f_q: plus*(q+qbar)+minus*(q-qbar) -> P+ acts on (q+qbar) comb, P- on (q-qbar)
                        T[pids.index(q)]+=plus*(Pp@vo)+minus*(Pm@vo)
                        T[pids.index(-q)]+=plus*(Pp@vo)-minus*(Pm@vo)
                    # pure singlet: sum_q plus_q * (1/nf) Pps acting on Sigma
                    splus=sum((wq[q]+wq[-q])/2 for q in range(1,nf+1))
                    for p in act: T[pids.index(p)]+=splus/nf*(Pps@vo)
                    T[pids.index(21)]+=sumq/(2*nf)*(Pqg@vo)
                    assert wg==0 or True
                return T
            intrinsic = k.channel=="intrinsic"
            cen={o:np.outer(w,v[o]) for o in v}
            F={}  # fact sv terms keyed (order, lnFpower) in lnF'
            if not intrinsic:
                F[(1,1)]=actP(0,0,0)
                if th["PTODIS"]>=2:
                    F[(2,1)]=actP(0,1,0)+actP(1,0,1)
                    # (2,2): 1/2 C0 P0 (P0-b0)
                    T=np.zeros((14,n))
                    if 0 in v:
                        vo=v[0]; sumq=sum(w[pids.index(p)] for p in act)
                        for p in act: T[pids.index(p)]+=w[pids.index(p)]*0.5*((M["P_qq_0^2"]-b0*M["P_qq_0"])@vo)
                        for p in act: T[pids.index(p)]+=sumq/(2*nf)*0.5*(M["P_qg_0P_gq_0"]@vo)
                        T[pids.index(21)]+=sumq/(2*nf)*0.5*((M["P_qq_0P_qg_0"]+M["P_qg_0P_gg_0"]-b0*M["P_qg_0"])@vo)
                    F[(2,2)]=T
            allk={(o,0):cen[o] for o in cen}
            for (o,j),T in F.items(): allk[(o,j)]=T
            for (o,j),T in allk.items():
                if j>0: add((o,0,0,j),T)
            # ren: order2 += b0*L_R*C1(L_M), L_R = lnF'-lnR'
            if th["PTODIS"]>=2:
                for (o,j),T in allk.items():
                    if o==1:
                        add((2,0,0,j+1), b0*T); add((2,0,1,j), -b0*T)
        worst=0
        for key,(val,err) in res.orders.items():
            if key[2]==0 and key[3]==0: continue
            e=exp.get(key,np.zeros_like(val))
            s=max(np.abs(val).max(),np.abs(e).max(),1e-300)
            d=np.abs(val-e).max()
            print("  ",key,"max|obs|=%.3e diff=%.3e rel=%.2e"%(np.abs(val).max(),d,d/s if np.abs(val).max()>0 or np.abs(e).max()>0 else 0))
pts=[dict(x=0.1,Q2=20.0)]
print("ZM NC F2"); run(mkth(PTO=2),mkobs({"F2_total":pts}),"F2_total")
print("ZM CC F3 nu"); run(mkth(PTO=2),mkobs({"F3_total":pts},prDIS="CC",ProjectileDIS="neutrino"),"F3_total")
print("FFNS NC F2_total"); run(mkth(PTO=2,FNS="FFNS"),mkobs({"F2_total":pts}),"F2_total")
