import time, warnings, sys, itertools, collections, traceback, os
warnings.filterwarnings("ignore")
import numpy as np
import yadism, yadism.log
yadism.log.silent_mode=True
from base import *
import multiprocessing as mp
kinds=["F2","FL","F3","g1","gL","g4"]
heavy=["total","charm"]
procs=[("EM","electron"),("NC","electron"),("NC","positron"),("CC","electron"),("CC","positron"),("CC","neutrino"),("CC","antineutrino")]
schemes=[("ZM-VFNS",3),("FFNS",3),("FFNS",4),("FONLL-FFNS",4)]
ptos=[0,1,2]
def job(args):
    kind,hv,(pr,proj),(fns,nfff),pto,tmc=args
    th=mkth(PTO=pto,FNS=fns,NfFF=nfff,TMC=tmc)
    ob=mkobs({f"{kind}_{hv}":[dict(x=0.1,Q2=30.0),dict(x=0.4,Q2=5.0)]},n=(5,5),deg=3,prDIS=pr,ProjectileDIS=proj)
    t0=time.time()
    try:
        out=yadism.run_yadism(th,ob)
        bad=0
        for r in out[f"{kind}_{hv}"]:
            for o,(v,e) in r.orders.items():
                if not (np.all(np.isfinite(v)) and np.all(np.isfinite(e))): bad+=1
        res="NONFINITE" if bad else "ok"
    except Exception as e:
        tb=traceback.extract_tb(e.__traceback__)[-1]
        res=f"{type(e).__name__}: {str(e)[:80]} @ {os.path.basename(tb.filename)}:{tb.lineno}"
    return args,res,time.time()-t0
if __name__=="__main__":
    tmc=int(sys.argv[1]) if len(sys.argv)>1 else 0
    jobs=[(k,h,p,s,o,tmc) for k in kinds for h in heavy for p in procs for s in schemes for o in ptos]
    print(len(jobs))
    t0=time.time()
    with mp.Pool(16) as pool:
        res=pool.map(job,jobs,chunksize=4)
    print("wall",time.time()-t0)
    c=collections.Counter(); ex={}
    for a,r,t in res:
        c[r]+=1; ex.setdefault(r,[]).append(a)
    for r,n in c.most_common():
        print(n, r)
        for a in ex[r][:6]: print("     ",a)
    print("max time", max(t for _,_,t in res))
