import warnings; warnings.filterwarnings("ignore")
import numpy as np, yadism, yadism.log, time, sys, copy, io, tempfile, os, traceback
yadism.log.silent_mode=True
from yadism.output import Output
from base import *
pts=[dict(x=0.1,Q2=20.0),dict(x=0.0123,Q2=50.)]
def trial(label, th, ob):
    try:
        out=yadism.run_yadism(th,ob)
    except Exception as e:
        print(label,"RUN",repr(e)[:100]); return
    for fmt in ["tar","yaml"]:
        try:
            if fmt=="tar":
                d=tempfile.mkdtemp(); p=os.path.join(d,"o.tar"); out.dump_tar(p); back=Output.load_tar(p)
            else:
                s=out.dump_yaml(); back=Output.load_yaml(io.StringIO(s))
            ks=set(out)==set(back)
            eq=True
            for k in out:
                if yadism.observable_name.ObservableName.is_valid(k) and out[k] is not None:
                    for a,b in zip(out[k],back[k]):
                        eq&= list(a.orders)==list(b.orders) and all(np.array_equal(a.orders[o][0],b.orders[o][0]) and np.array_equal(a.orders[o][1],b.orders[o][1]) for o in a.orders) and a.x==b.x and a.Q2==b.Q2 and a.nf==b.nf
                    eq&= len(out[k])==len(back[k])
                else:
                    e=np.array_equal(np.array(out[k],dtype=object) if False else out[k], back[k]) if not isinstance(out[k],dict) else out[k]==back[k] if not any(isinstance(v,np.ndarray) for v in out[k].values()) else all(np.array_equal(out[k][kk],back[k][kk]) for kk in out[k])
                    if not e: print("   meta differs",k,out[k],back[k], type(out[k]), type(back[k]))
            print(label,fmt,"keys",ks,"eq",eq,"theory",out.theory==back.theory,"obs",out.observables==back.observables)
        except Exception as e:
            tb=traceback.extract_tb(e.__traceback__)[-1]
            print(label,fmt,"EXC",type(e).__name__,str(e)[:100],tb.filename.split('/')[-1],tb.lineno)
trial("plain",mkth(PTO=1),mkobs({"F2_total":pts,"XSHERANC":[dict(x=0.1,Q2=20.,y=0.4)]}))
trial("empty",mkth(PTO=1),mkobs({"F2_total":pts,"FL_total":[]}))
ob=mkobs({"F2_total":pts}); ob["interpolation_xgrid"]=np.array(ob["interpolation_xgrid"])
trial("npgrid",mkth(PTO=1),ob)
trial("npQ2",mkth(PTO=1),mkobs({"F2_total":[dict(x=np.float64(0.1),Q2=np.float64(20.))]}))
trial("target",mkth(PTO=1),mkobs({"F2_total":pts},TargetDIS="iron"))
