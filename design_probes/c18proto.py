import warnings; warnings.filterwarnings("ignore")
import numpy as np, yadism, yadism.log, sys, pickle, os
yadism.log.silent_mode=True
from base import *
pts=[dict(x=0.1,Q2=20.0),dict(x=0.01,Q2=100.)]
res={}
for lab,th,ob in [("zm3",mkth(PTO=3),mkobs({"F2_total":pts,"FL_total":pts,"F3_total":pts})),("ffns2",mkth(PTO=2,FNS="FFNS"),mkobs({"F2_total":pts,"g1_charm":pts})),("cc",mkth(PTO=2,FNS="FFNS"),mkobs({"F2_total":pts,"F3_charm":pts},prDIS="CC",ProjectileDIS="neutrino")),("tmc",mkth(PTO=1,TMC=3),mkobs({"F2_total":pts,"g1_total":pts}))]:
    out=yadism.run_yadism(th,ob)
    for k in ob["observables"]:
        for i,r in enumerate(out[k]):
            for o,(v,e) in r.orders.items(): res[(lab,k,i,o)]=v
pickle.dump(res,open(sys.argv[1],"wb"))
