import warnings; warnings.filterwarnings("ignore")
import numpy as np, yadism, yadism.log, copy, scipy.integrate as si
yadism.log.silent_mode=True
from base import *
from eko.interpolation import InterpolatorDispatcher, XGrid
M=0.938
def wts(interp, xi, ker):
    """w_j = int_xi^1 du/u ker(xi/u) p_j(u)  [convolution (ker ⊗ p_j)(xi) with z=xi/u]"""
    nodes=interp.xgrid.raw
    out=[]
    for bf in interp:
        f=lambda t: ker(xi/np.exp(t))*bf.evaluate_x(np.exp(t))
        edges=[np.log(xi)]+[np.log(n) for n in nodes if xi<n<1]+[0.0]
        tot=0
        for a,b in zip(edges[:-1],edges[1:]):
            tot+=si.quad(f,a,b,epsabs=1e-14,epsrel=1e-12)[0]
        out.append(tot)
    return np.array(out)
def check(kind, tmc, x, Q2, pto=1):
    ob=mkobs({f"{kind}_total":[dict(x=x,Q2=Q2)]})
    out=yadism.run_yadism(mkth(PTO=pto,TMC=tmc,MP=M),ob)[f"{kind}_total"][0]
    mu=M*M/Q2; r=np.sqrt(1+4*x*x*mu); xi=2*x/(1+r)
    xg=ob["interpolation_xgrid"]
    interp=InterpolatorDispatcher(XGrid(xg,True),ob["interpolation_polynomial_degree"],mode_N=False)
    base_pts=[dict(x=xi,Q2=Q2)]+[dict(x=xn,Q2=Q2) for xn in xg]
    names={"F2":["F2"],"FL":["FL","F2"],"F3":["F3"]}[kind]
    raw=yadism.run_yadism(mkth(PTO=pto,TMC=0,MP=M),mkobs({f"{k}_total":base_pts for k in names}))
    h2w=wts(interp,xi,lambda z: z/xi)      # int du F2(u)/u^2
    g2w=wts(interp,xi,lambda z: 1-z)
    h3w=wts(interp,xi,lambda z: 1.0)
    worst=0
    for o in out.orders:
        get=lambda k,i: raw[f"{k}_total"][i].orders[o][0]
        F=lambda k: get(k,0)
        H=lambda k,w: sum(w[j]*get(k,1+j) for j in range(len(xg)) )
        if kind=="F2":
            exp=x**2/(xi**2*r**3)*F("F2")+6*mu*x**3/r**4*H("F2",h2w)
            if tmc==3: exp+=12*mu**2*x**4/r**5*H("F2",g2w)
            if tmc==2: exp=x**2/(xi**2*r**3)*(1+6*mu*x*xi/r*(1-xi)**2)*F("F2")
        if kind=="FL":
            exp=x**2/(xi**2*r)*F("FL")+4*mu*x**3/r**2*H("F2",h2w)
            if tmc==3: exp+=8*mu**2*x**4/r**3*H("F2",g2w)
        if kind=="F3":
            exp=x**2/(xi**2*r**2)*F("F3")+2*mu*x**3/r**3*H("F3",h3w)
        d=np.abs(out.orders[o][0]-exp).max(); s=np.abs(exp).max()
        worst=max(worst,d/s if s else d)
    print(kind,tmc,x,Q2,"worst rel",worst)
for kind in ["F2","FL","F3"]:
    for tmc in [1,3]:
        check(kind,tmc,0.3,4.0); check(kind,tmc,0.05,10.0)
check("F2",2,0.3,4.0)
