import warnings; warnings.filterwarnings("ignore")
import numpy as np, yadism, yadism.log, copy, time, sys
yadism.log.silent_mode=True
print(yadism.__file__)
from base import *
class Toy:
    def hasFlavor(s,pid): return pid!=22
    def xfxQ2(s,pid,x,Q2):
        c={21:1.5}.get(pid,0.3+0.05*pid)
        return c*x**-0.2*(1-x)**3
pdf=Toy()
mc=1.51
def contr(out,name):
    r=out[name][0]; res={}
    xg=out["xgrid"]["grid"]
    f=np.array([[pdf.xfxQ2(pid,z,1.)/z for z in xg] for pid in out["pids"]])
    for o,(v,e) in r.orders.items():
        if o[2]==0 and o[3]==0: res[o[0]]=(v*f).sum()
    return res
def scan(name, proc="NC", proj="electron", pto=2, x=0.1):
    print("==",name,proc,x)
    for xi in [1e1,1e2,1e3,1e4,1e5,1e6]:
        Q2=xi*mc**2
        ob=mkobs({name:[dict(x=x,Q2=Q2)]},n=(12,10),deg=4,prDIS=proc,ProjectileDIS=proj)
        a=contr(yadism.run_yadism(mkth(PTO=pto,FNS="FFNS",NfFF=3,RenScaleVar=False,FactScaleVar=False),ob),name)
        b=contr(yadism.run_yadism(mkth(PTO=pto,FNS="FFN0",NfFF=3,RenScaleVar=False,FactScaleVar=False),ob),name)
        print("  xi=%.0e"%xi, {k:"%.3e"%((a[k]-b[k])/max(abs(a[k]),abs(b[k]),1e-300)) for k in a}, {k:"%.3e"%a[k] for k in a})
scan("F2_charm"); scan("FL_charm"); scan("F2_light"); scan("F2_charm",x=0.01)
scan("F2_charm","CC","neutrino",pto=1); scan("F3_charm","CC","neutrino",pto=1); scan("FL_charm","CC","neutrino",pto=1)
scan("g1_charm",pto=2)
