import warnings; warnings.filterwarnings("ignore")
import numpy as np, scipy.integrate as si, importlib, itertools, inspect, sys
import adani
# harness-side shim for adani>=1.1 (see DESIGN 1.6)
_H=adani.HighScaleSplitLogs
def shim(order,kind,channel,version="exact"):
    if isinstance(version,str): version={"gm":adani.HighScaleVersion.GM,"exact":adani.HighScaleVersion.Exact}[version]
    return _H(order,kind,channel,version)
adani.HighScaleSplitLogs=shim
from yadism.coefficient_functions import partonic_channel as pc
class E:
    def __init__(s,x,Q2): s.x=x; s.Q2=Q2
def check(name,rsl,xmax=0.999):
    if rsl is None or rsl.loc is None: return None
    a=rsl.args; x0=1e-7; worst=0; bad=None
    for x in [0.001,0.01,0.1,0.3,0.5,0.7,0.9,0.99]:
        if x>xmax: continue
        try:
            lx=rsl.loc(x,a["loc"]); l0=rsl.loc(x0,a["loc"])
            integ=si.quad(lambda z: rsl.sing(z,a["sing"]),x0,x,epsabs=1e-12,epsrel=1e-12,limit=300)[0] if rsl.sing is not None else 0.0
        except Exception as e:
            return "EXC "+repr(e)[:60]
        if not np.isfinite(lx): return "NONFINITE"
        d=abs((lx-l0)+integ); sc=max(abs(lx-l0),abs(integ),abs(lx)*1e-6,1e-12)
        if d/sc>worst: worst=d/sc
    return worst
res=[]
for fam in ["light","heavy","asy","intrinsic"]:
    for kind,proc in itertools.product(["f2","fl","f3","g1","gl","g4"],["nc","cc"]):
        try: m=importlib.import_module(f"yadism.coefficient_functions.{fam}.{kind}_{proc}")
        except ModuleNotFoundError: continue
        except Exception as e: print("IMPORTERR",fam,kind,proc,repr(e)[:80]); continue
        for cname,c in vars(m).items():
            if not (isinstance(c,type) and issubclass(c,pc.PartonicChannel) and c.__module__==m.__name__): continue
            for nf in (3,5):
                for xi in (5.,200.,1e5):
                    e=E(0.01,xi)
                    try:
                        if fam=="light": inst=c(e,nf)
                        elif fam=="heavy": inst=c(e,nf,m2hq=1.0)
                        elif fam=="asy": inst=c(e,nf,m2hq=1.0)
                        else:
                            inst=c(e,nf,m1sq=1.0,m2sq=1.0) if proc=="nc" else c(e,nf,m1sq=1.0)
                    except Exception as ex:
                        res.append((fam,kind,proc,cname,nf,xi,None,"INST "+repr(ex)[:50])); continue
                    for o in range(4):
                        try: rsl=inst[o]()
                        except Exception as ex:
                            res.append((fam,kind,proc,cname,nf,xi,o,"ORDER-EXC "+repr(ex)[:60])); continue
                        w=check("",rsl)
                        if w is not None: res.append((fam,kind,proc,cname,nf,xi,o,w))
                    if fam=="light": break
import collections
agg={}
for fam,kind,proc,cname,nf,xi,o,w in res:
    key=(fam,kind,proc,cname,o)
    if isinstance(w,str): agg.setdefault(key,set()).add(w)
    else: agg[key]=max(agg.get(key,0) if not isinstance(agg.get(key,0),set) else 0,w)
for k,v in sorted(agg.items(),key=lambda kv: str(kv[0])):
    flag="" if (not isinstance(v,set) and v<1e-4) else "   <<<<"
    print(k, v if isinstance(v,set) else "%.2e"%v, flag)
