import time, pkgutil, importlib, sys
t=time.time()
import yadism
n=0; err=[]
for m in pkgutil.walk_packages(yadism.__path__, "yadism."):
    try:
        importlib.import_module(m.name); n+=1
    except Exception as e:
        err.append((m.name, repr(e)[:80]))
print("modules", n, "time", time.time()-t)
print(err)
import numba
from numba.core.dispatcher import Dispatcher
cnt=0
for name,mod in list(sys.modules.items()):
    if name.startswith("yadism"):
        for k,v in vars(mod).items():
            if isinstance(v, Dispatcher) and v.__module__==name: cnt+=1
print("dispatchers", cnt)
