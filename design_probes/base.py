import copy, numpy as np
from eko.interpolation import make_grid
CKM="0.97428 0.22530 0.003470 0.22520 0.97345 0.041000 0.00862 0.04030 0.999152"
theory = dict(
    PTO=1, PTODIS=1, FNS="ZM-VFNS", NfFF=3,
    mc=1.51, mb=4.92, mt=172.5, kcThr=1.0,kbThr=1.0,ktThr=1.0,
    MaxNfPdf=6, MP=0.938, HQ="POLE", TMC=0,
    RenScaleVar=True, FactScaleVar=True,
    CKM=CKM, MW=80.398, MZ=91.1876, GF=1.1663787e-5, SIN2TW=0.23126, FONLLParts="full", n3lo_cf_variation=0,
    alphas=0.118, Qref=91.2, nfref=5, alphaqed=0.007496252, QED=0, ModEv="EXA", XIF=1.0, XIR=1.0, Qmc=1.51,Qmb=4.92,Qmt=172.5, IC=0, IB=0, MaxNfAs=6, Q0=1.65, nf0=3, kDIScThr=1.0,kDISbThr=1.0,kDIStThr=1.0,
)
def mkobs(observables, n=(8,6), deg=3, **kw):
    xgrid = make_grid(*n).tolist()
    d=dict(interpolation_xgrid=xgrid, interpolation_polynomial_degree=deg, interpolation_is_log=True,
    prDIS="NC", TargetDIS="proton", ProjectileDIS="electron", PolarizationDIS=0.0, PropagatorCorrection=0.0, NCPositivityCharge=None,
    observables=observables)
    d.update(kw); return d
def mkth(**kw):
    t=dict(theory); t.update(kw)
    if "PTO" in kw and "PTODIS" not in kw: t["PTODIS"]=kw["PTO"]
    return t
