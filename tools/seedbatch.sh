#!/bin/bash
# usage: tools/seedbatch.sh <tier> <seedname> <props...>  -> confirm + run checks; appends to .work/seedbatch.log
tier=$1; name=$2; shift 2
cd "$(dirname "$0")/.."
echo "##### $name (tier $tier; checks $@)"
tools/seedconfirm.sh seeded/$name
tools/seedtest.sh seeded/$name/patch.diff $tier "$@"
