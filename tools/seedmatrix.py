#!/usr/bin/env python3
"""Regenerate the seeded-change table of DESIGN.md section 7.7 from seeded/*/meta.json and print the summary counts."""
import json
import pathlib
import re

V = pathlib.Path(__file__).resolve().parent.parent
metas = [json.loads(p.read_text()) for p in sorted(V.glob("seeded/*/meta.json"))]
rows = ["| seed | needs, in order to manifest | caught by | run against, not caught |", "|------|------------------------------|-----------|--------------------------|"]
own = anyc = 0
notown = []
neutral = []
per_round = {}
for m in metas:
    caught = m.get("caught_by", [])
    if m.get("status", "").startswith("neutralised"):
        rows.append(f"| {m['seed']} | {m['needs_to_manifest']} | (no longer manifests: {m['status'].split(':')[0]}; caught by {'; '.join(caught)} before) | - |")
        neutral.append(m["seed"])
        continue
    rows.append(f"| {m['seed']} | {m['needs_to_manifest']} | {'; '.join(caught) or '-'} | {'; '.join(m.get('not_caught_by', [])) or '-'} |")
    is_own = any(c.split()[0].rstrip(";,") == m["property"] for c in caught)
    own += is_own
    anyc += bool(caught)
    if not is_own:
        notown.append(m["seed"])
    r = per_round.setdefault(m.get("round", 1), [0, 0])
    r[0] += 1
    r[1] += is_own
txt = (V / "DESIGN.md").read_text()
pat = re.compile(r"\| seed \| needs, in order to manifest \|.*?\n\n", re.S)
assert pat.search(txt)
txt = pat.sub(lambda _: "\n".join(rows) + "\n\n", txt, count=1)
(V / "DESIGN.md").write_text(txt)
print(f"neutralised={neutral} seeds={len(metas)} caught_by_any={anyc} caught_by_own={own} not_own={notown} per_round(total,own)={per_round}")
