#!/usr/bin/env python3
"""Self-test: revert each `fix:` commit of /repo on a scratch copy and require the property's check to raise the alarm again.

usage: tools/selftest.py [tier] [commit-prefix ...]     exit 0 iff every reverted fix is caught (or does not revert cleanly)
"""
import json, os, pathlib, shutil, subprocess, sys, tempfile

V = pathlib.Path(__file__).resolve().parent.parent
TABLE = [  # (commit, checks expected to fire, what)
    ("4cec22aa", ["C16"], "adani enum"), ("5d8c2db2", ["C16"], "w_odd['v']"), ("9424179d", ["C06"], "np.square thresholds"),
    ("1d74d184", ["C12"], "apply_isospin copy"), ("d2f563b8", ["C15"], "empty kinematics"), ("f8b773eb", ["C15"], "re-dump of loaded output"),
    ("8e2437cd", ["C03"], "N3LO ns loc 0.5"), ("0ecc585d", ["C03"], "scalar spline"), ("503e2e64", ["C03", "C05"], "pqq0_2_loc"),
    ("306b6661", ["C10"], "TMC h3"), ("54d698de", ["C10"], "TMC g1 k1"), ("34ee95b8", ["C10"], "TMC g1 2x"),
    ("c6c382ff+ab47799e", ["C16"], "check_kinematics (+XS use of it)"), ("ab47799e", ["C16"], "XS kinematics first"), ("f62435bb", ["C16"], "TMC map"), ("52cdf90f", ["C16"], "dispatch errors"),
    ("25f7ee1f+0ecc585d", ["C03"], "heavy N3LO splines from finite rows (+ scalar return built on it)"), ("aba9f4d3", ["C16"], "replace_nans_with_0 name test"),
    ("628c815a", ["C18"], "fl_cc loc args"), ("93283357", ["C08"], "missing asy weights"), ("d8ec27c4", ["C08"], "FL Adler"), ("dd5ce457", ["C01"], "threshold kink break point"),
    ("a6db27f7", ["C14"], "SF cache keyed by named kinematics"),
    ("a6f856d5", ["C15"], "load_tar without runcards"), ("b72c99b1", ["C15"], "numpy objects in dumped cards"),
]
tier = sys.argv[1] if len(sys.argv) > 1 else "quick"
only = sys.argv[2:]
ok = True
rows = []
for commit, checks, what in TABLE:
    if only and not any(commit.startswith(o) or o in commit for o in only):
        continue
    d = tempfile.mkdtemp(prefix="vself.", dir="/tmp")
    try:
        subprocess.run(["rsync", "-a", "--exclude", "__pycache__", "/repo/src", d + "/"], check=True)
        p = None
        for one in commit.split("+")[::-1]:  # "a+b": revert b first, then a (b builds on a)
            diff = subprocess.run(["git", "-C", "/repo", "diff", f"{one}^", one, "--", "src"], capture_output=True, text=True, check=True).stdout
            p = subprocess.run(["git", "apply", "-R"], input=diff, text=True, cwd=d, capture_output=True)
            if p.returncode != 0:
                break
        if p.returncode != 0:
            rows.append((commit, what, "does not revert cleanly (later commit touches the same lines)", None))
            continue
        for c in checks:
            env = dict(os.environ, VERIF_REPO=d, VERIF_TIER=tier, VERIF_EVIDENCE_DIR=".work/selftest-evidence")
            r = subprocess.run(["./check", c], cwd=V, env=env, capture_output=True, text=True)
            nviol = sum(1 for l in r.stdout.splitlines() if l.startswith("VIOLATION"))
            rows.append((commit, what, f"{c} rc={r.returncode} violations={nviol}", r.returncode == 1))
            ok = ok and r.returncode == 1
    finally:
        shutil.rmtree(d, ignore_errors=True)
for r in rows:
    print("%-9s %-28s %s %s" % (r[0], r[1], r[2], "" if r[3] is None else ("CAUGHT" if r[3] else "MISSED")))
sys.exit(0 if ok else 1)
