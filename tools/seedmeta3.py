#!/usr/bin/env python3
"""Write seeded/<id>/meta.json for the third seeding round (suffixes G, H) from the logs of tools/seedbatch.sh (.work/batchG-<id>*.log).

usage: tools/seedmeta3.py            (only entries whose logs exist are written; the hand-written texts are below)
"""
import json
import pathlib
import re

V = pathlib.Path(__file__).resolve().parent.parent
NEEDS = {
    "C17-G": "ESFResult.apply_pdf applies the scale logs with if/elif: mixed keys (k,l,i>0,j>0) lose ln(1/xiF^2)^j: PTODIS>=2 with both scale-variation switches, xiR != 1 and xiF != 1 at once; 5e-3..1e-1",
    "C17-H": "apply_pdf_theory builds the Atlas from masses^2 * k (linear ratio) instead of (k m)^2: wrong nf for alpha_s when k m^2 <= muR^2 < (k m)^2: ZM-VFNS with some k{c,b,t}Thr != 1 and muR inside that window; alpha_s off by ~1%",
    "C10-G": "TMC constructor writes the Nachtmann variable into the caller's kinematics dict (shared with the card): first run right, a second run from the same card object computes at xi(xi) and echoes x=xi",
    "C10-H": "TMC node loop starts at searchsorted-1-degree//2, ignoring eko's clamped blocks at the top of the grid: xi in the last grid intervals (x close to 1), TMC 1/3; 2e-4..6e-3",
    "C20-G": "CouplingConstants.from_dict uses theory.setdefault for MZ / SIN2TW on the caller's card: only cards lacking those optional keys",
    "C20-H": "get_result / replace_nans_with_0 copy shallowly: the output's cards are the caller's own objects, xgrid shared between outputs: visible only after the caller edits its cards or one output later",
    "C15-G": "two cooperating edits: ESFResult.get_raw emits orders sorted, dump_tar stacks the arrays in insertion order: tar only, PTODIS>=2 (scale-variation keys not inserted in sorted order): slices under each other's keys",
    "C15-H": "load_tar stores the run cards with setattr(cls, ...): every object loaded earlier shows the cards of the last archive loaded in the process",
    "C07-G": "fl11 flavour trace restricted to the coupled quark (partonic_coupling_fl11 via a couples() helper): NCPositivityCharge + PTODIS=3, NC/EM F2/FL; the six restricted runs no longer add up at (3,0,0,0)",
    "C07-H": "compute_local toggles sv_manager.activate_fact per kernel and never restores it: after an evaluation whose last kernel is intrinsic (parity-violating NC observable in a massive scheme) every later evaluation of the runner loses its lnF entries: order of observables/points decides",
    "C14-G": "StructureFunction cache key built from the sorted bare kinematic values: cross-section points with x and y exchanged at equal Q2 (and x/Q2-swapped points below 1) share one entry (patch re-based onto the repaired key)",
    "C14-H": "ScaleVariations.compute_raw rescales a memoised P_qg_0 operator by (nf_done/nf) instead of (nf/nf_done): FactScaleVar, PTO>=1, variable-flavour scheme, points on both sides of a threshold in one runner; which point is wrong depends on the request order",
    "C19-G": "quad_ker_reg_sing loses the 1/z in the linear-interpolation branch: interpolation_is_log=False, PTODIS>=1, coefficients with regular and plus-distribution part (NLO quark F2/F3, P_qq/P_gg): linear grids converge to a wrong number (1.5-8%)",
    "C19-H": "ScaleVariations.operators became a class attribute keyed (label, nf): a second runner on another grid of the same size reuses the first grid's matrices (silently wrong), another size raises a matmul ValueError",
    "C16-G": "cc_weights_even/odd loop over range(1, nf+2): with six active flavours (NfFF=6 or ZM-VFNS above mt^2, CC) CKM2Matrix is asked for a seventh quark: ValueError '7 is not in list' from list.index",
    "C16-H": "x < xmin rejection made tolerant with np.isclose (rtol 1e-5, atol 1e-8) in ESF and TMC: x within 1e-8+1e-5 xmin below the lowest node accepted (everything below the grid for xmin <= 1e-8)",
    "C09-G": "pair threshold rewritten as z > zmax (strict): exactly at W2 = 4m2 the local Adler term of the 'missing' channel survives: PTODIS>=2, light/total, x = zmax representable",
    "C09-H": "heavy kernels look the mass up as m2hq[nf-3]: wrong mass whenever the massive quark is not the one next to the light ones (FFNS NfFF=3 bottom/top, NfFF=4 top): thresholds and slow rescaling use charm's mass",
    "C08-G": "Combiner.heavy_components hands sfh-1 instead of nf to generate_heavy_asy: FFN0 of the second/third massive quark (F2_bottom with NfFF=3) built for ihq-1 incoming flavours: spurious charm columns at a_s^2, CC already off at LO",
    "C08-H": "asymptotic NC heavy kernels: AA weights added in place into the shared VV weight dict inside the LL/NLL/NNLL loop: FFN0 gluon/singlet weight VV + (PTO+1) AA: prDIS=NC, PTO>=1, Q2 not far below MZ^2",
    "C01-G": "heavy CC FL gluon: the Table-2 coefficient list is built once outside reg and h_g's cs.insert(0, c0) grows it on every integrand call: gluon row of (1,0,0,0) of FL_<massive quark>/FL_total, CC, PTODIS>=1, depends on the history of quadrature calls",
    "C01-H": "compute_local multiplies by x instead of the convolution point: kernels with an overridden convolution point (massive CC: xi = x(1+m2/Q2); NC intrinsic: x/eta) come out scaled by x/xi at every order",
    "C02-G": "propagator correction applied as rho*eta^2 instead of (rho*eta)^2 to the ZZ term: prDIS=NC with PropagatorCorrection != 0; 1e-6 at Q2=20, percent at Q2 >= 3000",
    "C02-H": "CKM2Matrix.masked: 'elif' chains the top test to the bottom test: masks naming both b and t (light CC kernels with nf=6: ZM-VFNS above mt^2 or NfFF=6) never switch the top row on",
    "C03-G": "asymptotic NNLO non-singlet F2, coefficient of ln(Q2/m2): 29*dlm/3 -> 29*dlm/6 in the local part c2ns2cm0_aq only: purely x-dependent (delta coefficient and all moments unchanged), loc(x)-loc(x0) off by 25-50%",
    "C03-H": "heavy CC quark local term: for lambda = 1/(1+m2/Q2) < 0.1 the closed form of the b3 integral is replaced by a wrongly expanded series: Q2/m2 < 1/9 only (bottom below 2.7 GeV2, charm below 0.25 GeV2); 2e-4..1.3e-2",
    "C04-G": "digit transposition 273.59 -> 237.59 in xcdiff3p.c2q3dfp: Adler first moment of f2_cc.NonSingletOdd at a_s^3 becomes +18 (CC, odd F2 combination, order 3 only)",
    "C04-H": "LightBase.decorator memoises RSL objects under (class __qualname__, method, nf) without the module: f2_nc/f3_nc/fl_nc/g1_nc NonSinglet (Gluon, Singlet, CC classes alike) collide: the second structure function asked in a process gets the first one's coefficient",
    "C05-G": "'RenScaleVar off' filter moved in front of the binomial expansion of ln(muF2/muR2)^n: the beta0*lnF pieces are dropped: RenScaleVar=False with FactScaleVar=True, PTODIS>=2: (2,0,0,1) off by 56%, (2,0,0,2) by 67%",
    "C05-H": "sector_mapping (2,1,0): the ns- sector gets P_nsp_1 instead of P_nsm_1: q-qbar observables (F3 NC/CC), PTODIS>=2, FactScaleVar; 1e-2 of (2,0,0,1)",
    "C06-G": "generate_single_flavor_light builds the gluon coefficient with nf = ihq: massless heavy-tagged NC/EM observables (F2_charm, F2_bottom ...) above the NEXT matching scale: gluon row of (1,0,0,0) scaled by ihq/nf",
    "C06-H": "ScaleVariations.ren_coeffs memoised per order without nf on the runner-wide manager: the nf of the lowest Q2 of the card fixes beta0/beta1 for all points: PTODIS>=2, a scale-variation switch, points in several nf regions of one run",
    "C11-G": "cross-section y+ loses the documented target-mass term -2 (Mh x y)^2/Q2 when the card has TMC != 0 ('not twice'): XSCHORUSCC/XSNUTEVCC/XSNUTEVNU with TMC 1-3; up to 5e-2",
    "C11-H": "two cooperating edits: lepton coefficients lru_cached (complete key except the projectile) and the antilepton F3 sign applied in place on the cached array: each antilepton evaluation of the same kind and point toggles the stored sign",
    "C12-G": "apply_isospin 'nothing to rotate' shortcut looks at pids 1, 2 only: kernels whose only u/d content is an antiquark (massive CC charm/top with electron/antineutrino, bottom with positron/neutrino) stay un-rotated on non-proton targets",
    "C12-H": "update_target unpacks an explicit mapping by position (z, a = target.values()): mappings listing A before Z (any card that went through yaml.dump) get Z and A swapped",
    "C13-G": "generate_single_flavor_light feeds the pure-singlet/valence kernels from range(1, ihq+1): heavy-tagged massless observable above the next threshold (F2_charm above mb2, ZM-VFNS), PTO>=2: rows of the heavier active quarks vanish, d<->b exchange symmetry broken",
    "C13-H": "beam-polarisation sign refactored into hel = -pol for e-/nubar but the ZZ VV/AA lepton coupling still uses the raw pol: e+(P) != e-(-P) for F2/FL, suppressed by the Z propagator squared (1e-7 at Q2=10, 3e-2 at 2e4)",
    "C18-G": "fl_cc.NonSingletOdd.N3LO passes no loc arguments: the compiled local kernel reads args[0] of an empty vector (garbage / 0), the interpreter raises IndexError: FL (or XS with FL), CC, light/total, PTO=3 (the defect F-07 re-introduced)",
    "C18-H": "nielsen inner loop R / M1**N1 rewritten as R * M1**(-N1) with int64 operands: compiled code evaluates int**negative int as 0: S_{n>=2,p}(x > 1/2): asymptotic NNLO gluon/pure-singlet pieces (FONLL-FFN0, PTO>=2), JIT only",
}
# how each check caught it / what was added after a miss (hand-written, keyed seed -> check -> text)
HOW = {
    ("C01-G", "C01"): "fixed anchors on the massive charged-current kernels at O(a_s), added after the first miss (the quick draw had not reached FL/CC/massive/PTO>=1)",
    ("C01-G", "C03"): "every part asked again with the same arguments must return the same number, added after the first miss",
    ("C11-H", "C11"): "the same kind for a second heavyness and a repeated point inside the judged run, added after the first miss",
    ("C06-G", "C06"): "tagged mode: gluon row of a massless flavour-tagged observable = e_q^2/sum e^2 times the total's, added after the first miss",
    ("C03-H", "C03"): "mass ratios Q2/m2 below 1 (0.03, 0.3; thorough 0.01..0.3) among the kernel arguments, added after the first miss",
    ("C17-H", "C17"): "matching ratios k != 1 with the coupling compared with eko inside the windows between m^2, k m^2 and (k m)^2, added after the first miss",
    ("C19-H", "C19"): "a refined grid that raises after the first grid of the family ran is a violation; added after the first run was INCONCLUSIVE (the crash had been counted as an unusable case)",
}
NEEDS_FILE = V / ".work" / "seedneeds3.json"
if NEEDS_FILE.exists():
    NEEDS.update({k: v for k, v in json.loads(NEEDS_FILE.read_text()).items() if v})

for seed, needs in sorted(NEEDS.items()):
    d = V / "seeded" / seed
    logs = sorted((V / ".work").glob(f"batchG-{seed}*.log"))
    if not d.is_dir() or not logs or not needs:
        continue
    txt = "\n".join(p.read_text() for p in logs)
    m = re.search(r"demo unchanged rc=(\d+).*?\| changed rc=(\d+)", txt)
    b = re.search(r"baseline stable_pass=(\d+) passed_now=(\d+) missing=(\d+)", txt)
    if not m or not b:
        print(seed, "incomplete log")
        continue
    results = {}
    for c, rc in re.findall(r"^== (C\d\d) rc=(\d+)", txt, re.M):
        results[c] = results.get(c, 0) or (1 if rc == "1" else 0)
    first = {}
    for c, rc in re.findall(r"^== (C\d\d) rc=(\d+)", txt, re.M):
        first.setdefault(c, rc)
    prop = seed.split("-")[0]
    caught, missed = [], []
    for c in sorted(results, key=lambda c: (c != prop, c)):
        if results[c]:
            how = HOW.get((seed, c))
            caught.append(f"{c} ({how})" if how else c)
        else:
            missed.append(f"{c} (quick tier, exit {first[c]})")
    meta = dict(
        seed=seed, round=3, property=prop,
        origin="written by an independent sub-agent (third round: two changes per agent with different mechanisms, variety asked for) that saw only the property text and a scratch worktree",
        needs_to_manifest=needs,
        confirmed=dict(how=f"tools/seedconfirm.sh seeded/{seed} : scratch copy of /repo, demo.py before/after git apply, pinned pytest baseline via tools/baseline_check.py",
                       demo_unchanged=f"exit {m.group(1)} ({'PASS' if m.group(1) == '0' else 'FAIL'})", demo_changed=f"exit {m.group(2)} ({'FAIL' if m.group(2) != '0' else 'PASS'})",
                       suite=f"{int(b.group(1)) - int(b.group(3))}/{b.group(1)} stable baseline tests pass with the change"),
        checks_run=f"tools/seedtest.sh seeded/{seed}/patch.diff quick <checks> (patch applied to a scratch copy of /repo/src, VERIF_REPO pointing at it)",
        caught_by=caught, not_caught_by=missed,
    )
    (d / "meta.json").write_text(json.dumps(meta, indent=1))
    print(seed, "demo", m.group(1), m.group(2), "suite missing", b.group(3), "caught", caught, "missed", missed)
