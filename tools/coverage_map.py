#!/venv/bin/python
"""Which statements of src/yadism do the registered workloads reach?

Runs the given tier of every check (or the listed ones) with line coverage switched on inside the worker processes and reports, per
file, the statements no workload executed. Bodies of numba-compiled functions are invisible to a Python tracer while the JIT is on;
they are listed separately and are driven by C18, which enumerates the compiled kernels by introspection.

  tools/coverage_map.py [quick|thorough] [Cxx ...]      -> .work/coverage/report.json  and a summary on stdout

This is an audit of the workloads, not a check: nothing registered in MANIFEST.json depends on it.
"""
import ast
import json
import os
import pathlib
import shutil
import subprocess
import sys

VERIF = pathlib.Path(__file__).resolve().parent.parent
sys.path.insert(0, str(VERIF))
from yadmon import env  # noqa: E402


def njit_spans(path):
    """line ranges of functions decorated with numba's njit/jit"""
    spans = []
    tree = ast.parse(path.read_text())
    for node in ast.walk(tree):
        if isinstance(node, (ast.FunctionDef,)):
            for d in node.decorator_list:
                txt = ast.unparse(d)
                if "njit" in txt or "nb.jit" in txt or "cfunc" in txt:
                    spans.append((node.name, node.lineno, node.end_lineno))
    return spans


def main():
    args = sys.argv[1:]
    tier = args[0] if args and args[0] in ("quick", "thorough") else "quick"
    props = [a for a in args if a.startswith("C")] or [f"C{i:02d}" for i in range(1, 21)]
    cdir = VERIF / ".work" / "coverage"
    shutil.rmtree(cdir, ignore_errors=True)
    cdir.mkdir(parents=True)
    e = dict(os.environ, YADMON_COVERAGE_DIR=str(cdir), VERIF_EVIDENCE_DIR=".work/coverage/evidence")
    for p in props:
        r = subprocess.run([str(VERIF / "check"), p, "--tier", tier], cwd=VERIF, env=e, capture_output=True, text=True)
        print(p, "rc", r.returncode, (r.stdout.strip().splitlines() or ["?"])[-1][:150], flush=True)
    import coverage

    cov = coverage.Coverage(data_file=str(cdir / ".coverage"), source=[str(env.SRC)])
    cov.combine([str(cdir)])
    cov.save()
    data = cov.get_data()
    report = {}
    tot_s = tot_m = tot_nb = tot_nbm = 0
    for f in sorted(pathlib.Path(env.SRC / "yadism").rglob("*.py")):
        try:
            _, stmts, _, missing, _ = cov.analysis2(str(f))
        except Exception:
            continue
        spans = njit_spans(f)
        injit = lambda ln: any(a <= ln <= b for _, a, b in spans)  # noqa: E731
        stmts_py = [s for s in stmts if not injit(s)]
        miss_py = [m for m in missing if not injit(m)]
        tot_s += len(stmts_py)
        tot_m += len(miss_py)
        miss_nb = {}
        for name, a, b in spans:
            body = [s for s in stmts if a < s <= b]
            mm = [m for m in missing if a < m <= b]
            if mm:
                miss_nb[name] = dict(missed=mm, statements=len(body))
        tot_nb += sum(1 for s in stmts if injit(s))
        tot_nbm += sum(len(v["missed"]) for v in miss_nb.values())
        report[str(f.relative_to(env.SRC))] = dict(statements=len(stmts_py), missed=miss_py, compiled_functions=len(spans), compiled_missed=miss_nb)
    out = dict(tier=tier, props=props, tree=env.tree_hash(), python_statements=tot_s, python_statements_missed=tot_m, files=report)
    (cdir / "report.json").write_text(json.dumps(out, indent=1))
    print(f"python-level statements outside compiled kernels: {tot_s}, never executed by any workload: {tot_m} ({100*tot_m/max(tot_s,1):.1f}%)")
    print(f"statements inside compiled kernels: {tot_nb}, never executed by the interpreter-mode workers (C18 py pool): {tot_nbm}")
    for k, v in sorted(report.items()):
        for fn, d in v["compiled_missed"].items():
            print(f"  [kernel] {k}:{fn}: {len(d['missed'])}/{d['statements']} missed: {d['missed'][:20]}")
    for k, v in sorted(report.items(), key=lambda kv: -len(kv[1]["missed"]))[:40]:
        if v["missed"]:
            print(f"  {k}: {len(v['missed'])}/{v['statements']} missed: {v['missed'][:30]}")


if __name__ == "__main__":
    main()
