#!/usr/bin/env python3
"""Run the pinned pytest baseline (hooks/guard OFF) and compare with /root/.vp/BASELINE.json.

Usage: tools/baseline_check.py [repo]     exit 0 iff every stable_pass test passed.
"""
import json, os, subprocess, sys, tempfile, xml.etree.ElementTree as ET

repo = sys.argv[1] if len(sys.argv) > 1 else "/repo"
base = json.load(open("/root/.vp/BASELINE.json"))
with tempfile.TemporaryDirectory() as d:
    xml = os.path.join(d, "junit.xml")
    env = dict(os.environ)
    env.pop("YADISM_VERIF", None)
    env["PYTHONPATH"] = os.path.join(repo, "src")
    # keep hypothesis' example database out of the repository (a stored failing example would be replayed for ever)
    env["HYPOTHESIS_STORAGE_DIRECTORY"] = os.path.join(d, "hypothesis")
    p = subprocess.run(
        ["/venv/bin/python", "-m", "pytest", "-ra", "-q", "-p", "no:cacheprovider", "--timeout=900",
         "--continue-on-collection-errors", f"--junitxml={xml}"],
        cwd=repo, env=env, stdout=subprocess.PIPE, stderr=subprocess.STDOUT, text=True)
    print(p.stdout[-1500:])
    passed = set()
    for tc in ET.parse(xml).getroot().iter("testcase"):
        if not any(ch.tag in ("failure", "error", "skipped") for ch in tc):
            passed.add(f"{tc.get('classname')}::{tc.get('name')}")
missing = [t for t in base["stable_pass"] if t not in passed]
# hypothesis-driven tests of the pinned suite are randomly flaky on the unchanged tree too (test_runner.py draws observable names):
# a test that did not pass is given two more runs on its own, each with a fresh example database, before it counts as missing
for attempt in (1, 2):
    if not missing:
        break
    for t in list(missing):
        cls, name = t.split("::")
        parts = cls.split(".")
        k = max(i for i, q in enumerate(parts) if q.startswith("test_"))
        node = "/".join(parts[: k + 1]) + ".py" + "".join("::" + q for q in parts[k + 1 :]) + "::" + name
        with tempfile.TemporaryDirectory() as d:
            env["HYPOTHESIS_STORAGE_DIRECTORY"] = os.path.join(d, "hypothesis")
            r = subprocess.run(["/venv/bin/python", "-m", "pytest", "-q", "-p", "no:cacheprovider", "--timeout=900", "--no-cov", node],
                               cwd=repo, env=env, stdout=subprocess.PIPE, stderr=subprocess.STDOUT, text=True)
        if r.returncode == 0:
            print(f"  flaky: {t} passed on retry {attempt}")
            missing.remove(t)
            passed.add(t)
print(f"baseline stable_pass={len(base['stable_pass'])} passed_now={len(passed)} missing={len(missing)}")
for m in missing:
    print("  MISSING", m)
sys.exit(1 if missing else 0)
