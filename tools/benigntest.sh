#!/bin/bash
# usage: tools/benigntest.sh [tier] : every behaviour-preserving patch in selftest/benign must leave every check at exit 0 (or 2), never 1
tier=${1:-quick}
cd "$(dirname "$0")/.."
bad=0
for f in selftest/benign/*.diff; do
  echo "##### $f"
  out=$(tools/seedtest.sh $f $tier C01 C02 C03 C04 C05 C06 C07 C08 C09 C10 C11 C12 C13 C14 C15 C16 C17 C18 C19 C20 2>&1)
  echo "$out" | grep -E "^== " | grep -v "rc=0" 
  echo "$out" | grep -E "^VIOLATION" | head -5 | cut -c1-300
  n=$(echo "$out" | grep -E "^== " | grep -c "rc=1")
  echo "checks raising an alarm: $n"
  bad=$((bad+n))
done
exit $([ $bad -eq 0 ] && echo 0 || echo 1)
