#!/bin/bash
# usage: tools/seedconfirm.sh <dir with patch.diff demo.py>   -> confirms demo PASS/FAIL and the pinned suite on a scratch copy of /repo
dir=$(readlink -f "$1")
d=$(mktemp -d /tmp/vconf.XXXXXX)
rsync -a --exclude '__pycache__' --exclude .git --exclude htmlcov --exclude docs --exclude benchmarks /repo/ "$d"/
export PYTHONPATH=$d/src NUMBA_CACHE_DIR=$d/.nbcache HYPOTHESIS_STORAGE_DIRECTORY=$d/.hyp
( cd $d && timeout 1500 /venv/bin/python "$dir/demo.py" > $d/demo0.out 2>&1 ); rc0=$?
( cd $d && git apply "$dir/patch.diff" ) || { echo "PATCH DOES NOT APPLY"; rm -rf $d; exit 3; }
rm -rf $d/.nbcache
( cd $d && timeout 1500 /venv/bin/python "$dir/demo.py" > $d/demo1.out 2>&1 ); rc1=$?
echo "demo unchanged rc=$rc0 ($(tail -1 $d/demo0.out | cut -c1-80)) | changed rc=$rc1 ($(tail -1 $d/demo1.out | cut -c1-80))"
unset PYTHONPATH
python3 "$(dirname "$0")/baseline_check.py" $d 2>&1 | tail -1
rm -rf $d
