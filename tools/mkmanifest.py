#!/usr/bin/env python3
"""Regenerate /verif/MANIFEST.json from the table below and the property modules that exist."""
import json
import os
import pathlib

V = pathlib.Path(__file__).resolve().parent.parent
TABLE = {
    "C01": ("exploration", "reference-model monitor: independent quadrature of the recorded kernels + in-span PDF contraction", "§2 C01",
            "A probe on Runner.replace_nans_with_0 counts entries handed over as 0 after a non-finite convolution; every operator entry of the runs explored is recomputed by an independent quadrature from the kernels the run actually used (probe on Combiner.collect_elems) and, at the public boundary, through contraction with in-span PDFs integrated analytically; held = on all sampled cells, kinematic classes and grids.",
            "eko basis functions and scipy.quad trusted; coefficient functions themselves are taken from the code (their physics is C02-C04, C08)"),
    "C02": ("exploration", "reference-model monitor (PDG electroweak/CKM weights) on the LO order of PTO=0..3 runs", "§2 C02",
            "Every parton row of the LO tensor of thousands of seeded runs over the EW box, CKM (string and list forms), schemes, projectiles, x classes and requested orders is compared with an independent PDG-formula model; a single wrong sign/charge/propagator/CKM mask is a 1e-1..1 relative effect against a 1e-9 tolerance.",
            "eko basis evaluation trusted; massive-quark (intrinsic) rows and undocumented heavylight heavynesses not judged"),
    "C03": ("exploration", "invariant monitor on every RSL the real code constructs (probe on RSL.__init__): loc(x)-loc(x0) = -int sing, finiteness, x-independent Mellin moments", "§2 C03",
            "All distribution objects constructed while every partonic-channel class and every splitting label is driven (nf 3..6, mass ratios Q2/m2 from 0.03 to 1e6, each once through Q2 and once through the mass) are checked on an x grid by numerical integration of their singular part; every part asked again with the same arguments must return the same number.",
            "scipy.quad trusted; parametrisation accuracy 1e-4 relative"),
    "C04": ("exploration", "reference-model monitor: sum rules (Adler, GLS/Bjorken) and textbook NLO closed forms against the RSLs returned by the real classes", "§2 C04",
            "Moments and pointwise NLO values of the real light coefficient-function objects are compared with exact constants / closed forms written independently.",
            "published constants; parametrised NNLO/N3LO judged at parametrisation accuracy"),
    "C05": ("exploration", "reference-model monitor: RG algebra oracle in flavour space + switch metamorphic relation + splitting-kernel moments vs ekore", "§2 C05",
            "All scale-variation keys of the runs explored are recomputed from the central-scale per-kernel vectors, beta coefficients in closed form and independently convolved splitting matrices; the four switch settings are compared bit for bit.",
            "ekore anomalous dimensions trusted for the kernel-validity part"),
    "C06": ("exploration", "probe on Combiner + public nf observables vs exact-rational threshold model; threshold metamorphic pairs", "§2 C06",
            "nf used by the code (probe) and visible in the output (active rows, beta0 in the muR term) is compared with an exact-rational count at, one ulp below and above every matching scale and at random Q2, all schemes; rows of inactive flavours must vanish in every heavyness/order; one run spanning several nf regions must agree with stand-alone runs; the gluon row of a massless flavour-tagged observable must be the tagged quark's charge share of the total's; ZM-VFNS cards with different thresholds but equal nf must be bit-identical.",
            "thresholds generated sorted and with exactly representable products"),
    "C07": ("exploration", "metamorphic relation monitor between observables/runs (additivity), entrywise", "§2 C07",
            "The four additive partitions are checked entry by entry for every order key on seeded cells; re-association noise is 1e-16, tolerance 1e-12.",
            "partition only where the scheme defines one"),
    "C08": ("exploration", "trajectory monitor over FFNS/FFN0 run pairs along Q2/m2 scans (bounded restatement of the limit)", "§2 C08",
            "For single-massive-quark configurations the normalised difference massive-asymptotic must fall at least like ln^2(xi)/xi between xi=1e2 and 1e6, per order, entrywise and contracted with PDFs.",
            "bounded restatement: no finite run decides a limit; quadrature noise limits xi<=1e6"),
    "C09": ("exploration", "invariant monitor at the output (exact zeros at/below W2=4m2, exact-rational predicate) + integrand probe + convolution-point probe", "§2 C09",
            "Points on both sides of and exactly at the hadronic threshold (dyadic constructions, +-1 ulp) must give exactly zero pair-production rows; the O(a_s^2) pair radiation off light quarks (in <kind>_light) must not notice a heavier quark at/below threshold; recorded heavy RSLs must vanish beyond the partonic threshold; CC heavy kernels must be convolved at x(1+m2/Q2) and, at twin points of equal Q2, be the same functions of their argument; in FFNS with several massive quarks every closed quark must stay invisible (mass variation per level) and count like an absent one (same card in FONLL-FFNS).",
            "exactly representable threshold constructions"),
    "C10": ("exploration", "reference-model monitor: published TMC formulas evaluated on observed uncorrected operators of the same configuration", "§2 C10",
            "TMC=1,2,3 operators are compared with Schienbein et al./Accardi-Melnitchouk formulas assembled from TMC=0 operators observed at xi and at the grid nodes, with independently integrated kernel weights; continuity in M and rejection outside the grid.",
            "documented discretisation F(u)=sum_j F(x_j)p_j(u); eko basis trusted"),
    "C11": ("exploration", "reference-model monitor (documented N, y+, y-, yL) on XS and SF operators of the same run", "§2 C11",
            "Every order key of every XS result is compared with the documented linear combination of the SF results of the same run; all ten kinds, projectiles, heavynesses, TMC, y classes; repeated evaluations of the same kind and point inside one run.",
            "documentation formulas; XSFPFCC normalisation derived from XSCHORUSCC (doc slip recorded in DESIGN)"),
    "C12": ("exploration", "metamorphic relation monitor between proton and target runs (isospin rotation), entrywise; named targets bitwise vs explicit (Z,A)", "§2 C12",
            "Pairs of runs differing only in TargetDIS are compared for every order key; anchors cover the asymptotic schemes where several kernels share weights.",
            "independent copy of the documented (Z,A) table"),
    "C13": ("exploration", "metamorphic relation monitor between processes/beams (Z decoupling, polarisation flip, charge conjugation, flavour symmetry)", "§2 C13",
            "Pairs/quadruples of runs are compared entrywise or bit for bit on seeded cells over kinds, schemes, orders, EW parameters and arbitrary CKM.",
            "MZ=MW=1e12 realises decoupling"),
    "C14": ("exploration", "history monitor: many request histories against the same configuration, bit-for-bit, with cache-state probes and injected aborts", "§2 C14",
            "Each base request is replayed inside permuted/extended/reduced/repeated/aborted/scribbled histories, with points spelt with their mapping keys in the other order, and after runners on other grids; probes count cache hits, misses and drops so that histories that never touched a cache do not count; every base request is also recomputed in a second set of processes (other order and partition; twin grid, same nodes in the other interpolation mode/degree and another NfFF served first) and compared bit for bit.",
            "single-threaded program: histories are sequences, not interleavings"),
    "C15": ("exploration", "round-trip monitor over dump/load chains of real runner outputs, field-by-field and through predictions", "§2 C15",
            "tar and YAML chains (three cycles, crossed) on outputs with SF/XS mixes, SV keys, TMC, empty and None observables; everything compared with array_equal; a second output of the same shape written over the same tar/YAML path must be what is read back.",
            "cards made of plain YAML types or numpy arrays/scalars (what the runner accepts); archives with and without run cards"),
    "C16": ("exploration", "outcome classifier over the full configuration lattice (finite / explicit rejection / internal failure), incl. dead-worker detection", "§2 C16",
            "The kind x heavyness x process x scheme x PTO lattice is enumerated (thorough: exhaustively, other factors by covering design) and every run classified from its result or traceback; out-of-domain kinematics must be rejected explicitly.",
            "an exception counts as explicit rejection iff its innermost frame is a raise statement in yadism or a dependency's deliberate ValueError/NotImplementedError"),
    "C17": ("exploration", "reference-model monitor: independent contraction, recording PDF/coupling callables, own RGE integration of the captured alpha_s", "§2 C17",
            "Predictions of real outputs (plus fabricated extra order keys) are compared with an explicit-loop contraction; argument recording proves the scales; the alpha_s callable built from the theory card is captured and checked against the exact RGE with the scheme's nf.",
            "eko threshold matching of alpha_s only checked away from thresholds; ModEv=EXA"),
    "C18": ("translation_validation", "differential execution compiled vs interpreted (per kernel on recorded argument vectors, end-to-end in two processes) + NUMBA_BOUNDSCHECK sanitizer + valgrind memcheck over whole JIT-mode runs (thorough tier)", "§2 C18",
            "Every numba dispatcher found in yadism.* is executed compiled and via py_func on the argument vectors the calling classes actually pass; full runs - random cards plus one small card per (scheme, process, kind, heavyness) cell - are repeated under NUMBA_BOUNDSCHECK=1 and with NUMBA_DISABLE_JIT=1; in the thorough tier sixteen small cards run under valgrind memcheck, a report counting only when the faulting instruction is in JIT-emitted code.",
            "numba's interpreter fallback (py_func) is the reference semantics"),
    "C19": ("exploration", "relation-between-runs monitor along grid-refinement families against a grid-independent truth (analytic PDF, independent quadrature)", "§2 C19",
            "For smooth PDFs the prediction error on each grid is bounded by K times the measured interpolation error of that grid; refinement must not make it worse; SV keys, TMC predictions and a twin grid (same size/end points, other nodes) must agree within the interpolation accuracy; node continuity is checked at x_k(1+-1e-9).",
            "K factors calibrated on the pinned tree (loose by design); adequate grid = interpolation error <= 1e-2"),
    "C20": ("exploration", "tracked-container monitor (every mutating method of the caller's nested cards logged) + echo and idempotence oracles", "§2 C20",
            "Cards are handed over as logging dict/list subclasses and deep-compared after every API call; outputs are checked to echo cards/grid/pids/projectile, to follow the given kinematics order and - by object identity - to share no container with the caller's cards or with each other; upgrade idempotence on all spellings.",
            "mutations observed through the container API"),
}
PENDING_REASON = "not yet claimed: its runtime monitor is designed (DESIGN.md §2) but not built/validated in this round; runtime monitoring does apply"

checks, na = [], []
for pid in sorted(TABLE):
    level, tech, ref, text, note = TABLE[pid]
    if (V / "yadmon" / "props" / f"{pid.lower()}.py").exists():
        checks.append({
            "property_id": pid,
            "quick_cmd": f"VERIF_TIER=quick ./check {pid}",
            "thorough_cmd": f"VERIF_TIER=thorough ./check {pid}",
            "evidence_file": f"evidence/{pid}.json",
            "replay_cmd_template": f"./check {pid} --replay {{path}}",
            "engine": "yadmon",
            "level_claimed": {"category": level, "text": text, "design_ref": f"DESIGN.md {ref}"},
            "level_note": note,
            "technique": tech,
        })
    else:
        na.append({"property_id": pid, "reason": PENDING_REASON})
m = {
    "version": 1,
    "setup_cmd": "/venv/bin/python -m compileall -q yadmon && mkdir -p evidence replays .work && /venv/bin/python -c \"import sys; sys.path.insert(0,'.'); from yadmon import env; env.prepare('jit')\"",
    "hooks": {
        "guard": "YADISM_VERIF",
        "enable": "no source hooks are needed: the monitors wrap the real functions from the harness (yadmon/props/*.py); the guard name is reserved and unused, checks import yadism straight from /repo/src (override with VERIF_REPO)",
        "baseline_off_cmd": "python3 tools/baseline_check.py /repo",
        "source_commits": [],
        "add_only": True,
    },
    "engines": [{"name": "yadmon", "path": "yadmon/", "serves_properties": [c["property_id"] for c in checks],
                 "kind_free_text": "runtime monitoring harness: seeded workloads in 16 worker subprocesses (JIT on, numba cache keyed by a hash of /repo/src), recording probes on the real call boundaries, independent reference models, three-valued verdicts, known-findings matching by mechanism signature; sanitizers: NUMBA_BOUNDSCHECK runs (C18 both tiers) and valgrind memcheck over whole JIT-mode runs (C18 thorough tier)"}],
    "checks": checks,
    "notes": "exit 0 held / 1 VIOLATION / 2 INCONCLUSIVE (coverage floor not met: never folded into held). VERIF_SEED and VERIF_TIER honoured. known_findings.json lists fixed and open findings; replays/ holds witnesses.",
    "not_applicable": na,
}
(V / "MANIFEST.json").write_text(json.dumps(m, indent=1) + "\n")
print("checks:", [c["property_id"] for c in checks], "pending:", [n["property_id"] for n in na])
