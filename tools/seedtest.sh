#!/bin/bash
# usage: tools/seedtest.sh <patch.diff> <tier> <props...>
# Applies the patch to a scratch copy of /repo/src (never to /repo), runs the named checks against it (VERIF_REPO), removes the copy.
patch=$(readlink -f "$1"); tier=$2; shift 2
cd "$(dirname "$0")/.."
d=$(mktemp -d /tmp/vrepo.XXXXXX)
rsync -a --exclude '__pycache__' /repo/src "$d"/
( cd "$d" && git apply "$patch" ) || { echo "PATCH DOES NOT APPLY"; rm -rf "$d"; exit 3; }
for p in "$@"; do
  out=$(VERIF_REPO=$d VERIF_TIER=$tier VERIF_EVIDENCE_DIR=.work/seedtest-evidence ./check $p 2>/dev/null)
  rc=$?
  echo "== $p rc=$rc $(echo "$out" | grep -c '^VIOLATION') violation line(s)"
  echo "$out" | grep '^VIOLATION' | head -3 | cut -c1-330
  echo "$out" | tail -1 | cut -c1-200
done
rm -rf "$d"
# drop the numba cache of the scratch tree
/venv/bin/python - <<'PY'
import sys; sys.path.insert(0,'.')
from yadmon import env; env.prune_caches()
PY
