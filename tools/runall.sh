#!/bin/bash
# usage: tools/runall.sh <tier> <seed> [props...]   -> one line per check: id exit wall summary
tier=${1:-quick}; seed=${2:-0}; shift 2
props=${@:-C01 C02 C03 C04 C05 C06 C07 C08 C09 C10 C11 C12 C13 C14 C15 C16 C17 C18 C19 C20}
cd "$(dirname "$0")/.."
mkdir -p .work/runall
for p in $props; do
  t0=$(date +%s)
  VERIF_TIER=$tier VERIF_SEED=$seed ./check $p > .work/runall/$p.$tier.$seed.out 2> .work/runall/$p.$tier.$seed.err
  rc=$?
  t1=$(date +%s)
  echo "$p rc=$rc $((t1-t0))s $(grep -c '^VIOLATION' .work/runall/$p.$tier.$seed.out) viol | $(tail -1 .work/runall/$p.$tier.$seed.out | cut -c1-160)"
done
