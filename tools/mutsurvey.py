#!/venv/bin/python
"""First-order mutation survey: which small, realistic slips in src/yadism do the quick checks see?

  tools/mutsurvey.py --n 40 --seed 1 [--tier quick] [--out .work/mutsurvey/<seed>.jsonl] [--files glob ...]

For each sampled mutant (one token of one source file changed: comparison boundary, arithmetic sign / operator, adjacent digits of
a numeric literal transposed, and/or, min/max, True/False) a scratch copy of /repo/src is made under /tmp, the mutant applied and
byte-compiled, and the checks are run against it with VERIF_REPO (never against /repo) in an order that puts the checks owning the
mutated layer first; the first check that exits 1 'kills' the mutant.  A mutant no check kills is run through the pinned pytest
baseline (a mutant the repository's own tests kill is of no interest) and listed as a survivor for reading: it is either equivalent
(no observable change), outside every documented configuration, below the documented accuracy - or a gap in the checks.

This is an audit of the checks (DESIGN 7.11), not a check: nothing registered in MANIFEST.json depends on it.  Statements no workload
executes (tools/coverage_map.py report, if present) are skipped.  Scratch copies and their numba caches are removed after each mutant.
"""
import argparse
import fnmatch
import io
import json
import os
import pathlib
import random
import re
import shutil
import subprocess
import sys
import tempfile
import time
import tokenize

VERIF = pathlib.Path(__file__).resolve().parent.parent
REPO = pathlib.Path("/repo")
ALL = [f"C{i:02d}" for i in range(1, 21)]

CMP = {"<": "<=", "<=": "<", ">": ">=", ">=": ">", "==": "!=", "!=": "=="}
ARI = {"+": "-", "-": "+", "*": "/", "/": "*"}
KINDW = {"cmp": 0.25, "name": 0.1, "sign": 0.15, "arith": 0.2, "int": 0.15, "float": 0.15}
NAMES = {"and": "or", "or": "and", "min": "max", "max": "min", "True": "False", "False": "True"}

# which checks own which layer (tried first; every other check follows)
ORDER = [
    ("esf/tmc", ["C10", "C07", "C14", "C18", "C19", "C16"]),
    ("esf/conv", ["C01", "C19", "C05", "C18"]),
    ("esf/scale_variations", ["C05", "C06", "C14", "C13"]),
    ("esf/exs", ["C11", "C17", "C16", "C14"]),
    ("esf/result", ["C17", "C15", "C11", "C05"]),
    ("esf/esf", ["C01", "C14", "C06", "C09", "C16"]),
    ("esf/", ["C01", "C14", "C16", "C10"]),
    ("coefficient_functions/coupling_constants", ["C02", "C13", "C12", "C20"]),
    ("coefficient_functions/splitting_functions", ["C05", "C03", "C06"]),
    ("coefficient_functions/special", ["C18", "C03", "C04", "C08"]),
    ("coefficient_functions/light", ["C03", "C04", "C01", "C02", "C13", "C07", "C18"]),
    ("coefficient_functions/heavy", ["C03", "C09", "C08", "C01", "C02", "C06", "C18"]),
    ("coefficient_functions/asy", ["C08", "C03", "C01", "C02", "C18"]),
    ("coefficient_functions/intrinsic", ["C03", "C09", "C01", "C02", "C08", "C18"]),
    ("coefficient_functions/fonll", ["C08", "C03", "C01", "C07", "C09"]),
    ("coefficient_functions/kernels", ["C02", "C07", "C06", "C12", "C13", "C09"]),
    ("coefficient_functions/", ["C01", "C02", "C03", "C07", "C06", "C09", "C16"]),
    ("input/", ["C20", "C16", "C06", "C02"]),
    ("output", ["C15", "C17", "C20"]),
    ("runner", ["C20", "C14", "C16", "C12", "C06", "C17"]),
    ("sf", ["C14", "C07", "C16", "C11"]),
    ("xs", ["C11", "C14", "C16", "C17"]),
    ("observable_name", ["C16", "C07", "C11", "C02"]),
    ("", ["C01", "C02", "C16"]),
]


def sites(path, skip_lines):
    """(row, col, old, new, kind) for every mutable token of a file"""
    src = path.read_text()
    out = []
    try:
        toks = list(tokenize.generate_tokens(io.StringIO(src).readline))
    except tokenize.TokenError:
        return out
    depth_dec = False
    for i, t in enumerate(toks):
        row, col = t.start
        if row in skip_lines:
            continue
        line = t.line.lstrip()
        if line.startswith("@") or line.startswith(("import ", "from ", "def ", "class ")):
            continue  # decorators (numba signatures), imports, signatures
        prev = toks[i - 1] if i else None
        if t.type == tokenize.OP:
            if t.string in CMP:
                out.append((row, col, t.string, CMP[t.string], "cmp"))
            elif t.string in ARI:
                if t.string == "*" and prev is not None and prev.string in ("(", ",", "[", "=", "*"):
                    continue  # star-args
                if t.string in "+-" and prev is not None and (prev.type == tokenize.OP and prev.string not in (")", "]")):
                    out.append((row, col, t.string, ARI[t.string], "sign"))
                else:
                    out.append((row, col, t.string, ARI[t.string], "arith"))
        elif t.type == tokenize.NAME and t.string in NAMES:
            out.append((row, col, t.string, NAMES[t.string], "name"))
        elif t.type == tokenize.NUMBER:
            s = t.string
            if re.fullmatch(r"\d+", s):
                n = int(s)
                out.append((row, col, s, str(n + 1), "int"))
            elif re.fullmatch(r"[\d.]+(e[+-]?\d+)?", s, re.I) and "j" not in s.lower():
                mant = re.split(r"[eE]", s)[0]
                digs = [k for k, ch in enumerate(mant) if ch.isdigit()]
                new = None
                for a, b in zip(digs, digs[1:]):
                    if mant[a] != mant[b] and b == a + 1 and a >= 1:  # not the leading digit: keeps the magnitude
                        new = mant[:a] + mant[b] + mant[a] + mant[b + 1 :]
                        break
                if new is None and digs:
                    k = digs[-1]
                    new = mant[:k] + str((int(mant[k]) + 1) % 10) + mant[k + 1 :]
                if new and new != mant:
                    out.append((row, col, s, new + s[len(mant) :], "float"))
    return out


def owners_of(rel):
    for prefix, lst in ORDER:
        if prefix in rel:
            return lst
    return []


def order_for(rel):
    first = []
    for prefix, lst in ORDER:
        if prefix in rel:
            first = lst
            break
    return first + [c for c in ALL if c not in first]


def run(cmd, env=None, cwd=None, timeout=3600):
    try:
        p = subprocess.run(cmd, env=env, cwd=cwd, capture_output=True, text=True, timeout=timeout)
        return p.returncode, p.stdout, p.stderr
    except subprocess.TimeoutExpired:
        return 124, "", "timeout"


def main():
    ap = argparse.ArgumentParser()
    ap.add_argument("--n", type=int, default=20)
    ap.add_argument("--seed", type=int, default=1)
    ap.add_argument("--tier", default="quick")
    ap.add_argument("--out", default=None)
    ap.add_argument("--files", nargs="*", default=["*"])
    ap.add_argument("--kinds", nargs="*", default=None)
    ap.add_argument("--budget-min", type=float, default=1e9)
    ap.add_argument("--owners-only", action="store_true", help="run only the checks that own the mutated layer (a survivor is then 'not killed by the owners')")
    a = ap.parse_args()
    rng = random.Random(a.seed)
    out = pathlib.Path(a.out or VERIF / ".work" / "mutsurvey" / f"seed{a.seed}.jsonl")
    out.parent.mkdir(parents=True, exist_ok=True)
    cov = {}
    for cand in (VERIF / ".work/coverage/report.json", pathlib.Path("/verif/.work/coverage/report.json")):
        if cand.exists():
            cov = json.loads(cand.read_text())["files"]
            break
    pool = []
    for f in sorted((REPO / "src/yadism").rglob("*.py")):
        rel = str(f.relative_to(REPO / "src"))
        if not any(fnmatch.fnmatch(rel, "*" + g + "*") for g in a.files):
            continue
        if rel.endswith(("version.py", "log.py", "__main__.py")):
            continue
        skip = set(cov.get(rel, {}).get("missed", []))
        for v in cov.get(rel, {}).get("compiled_missed", {}).values():
            skip |= set(v["missed"])
        s = sites(f, skip)
        if a.kinds:
            s = [x for x in s if x[4] in a.kinds]
        if s:
            pool.append((rel, s))
    weights = [min(len(s), 150) for _, s in pool]
    _, own, _ = run(["/venv/bin/python", "-c", "from yadmon import env; print(env.tree_hash())"], env={k: v for k, v in os.environ.items() if k != "VERIF_REPO"}, cwd=VERIF)
    own = own.strip().splitlines()[-1] if own.strip() else ""
    t_start = time.time()
    done = 0
    seen = set()
    while done < a.n and (time.time() - t_start) / 60 < a.budget_min:
        want = rng.choices(list(KINDW), list(KINDW.values()))[0]
        cand = [(rel, [x for x in s if x[4] == want]) for rel, s in pool]
        cand = [(rel, s) for rel, s in cand if s]
        if not cand:
            continue
        rel, s = rng.choices(cand, [min(len(s), 40) for _, s in cand])[0]
        row, col, old, new, kind = rng.choice(s)
        key = (rel, row, col)
        if key in seen:
            continue
        seen.add(key)
        d = pathlib.Path(tempfile.mkdtemp(prefix="vmut.", dir="/tmp"))
        try:
            subprocess.run(["rsync", "-a", "--exclude", "__pycache__", "--exclude", ".git", "--exclude", "docs", "--exclude", "benchmarks",
                            "--exclude", "htmlcov", str(REPO) + "/", str(d) + "/"], check=True)
            f = d / "src" / rel
            lines = f.read_text().split("\n")
            ln = lines[row - 1]
            assert ln[col : col + len(old)] == old, (rel, row, col, old, ln)
            lines[row - 1] = ln[:col] + new + ln[col + len(old) :]
            f.write_text("\n".join(lines))
            rc, _, err = run(["/venv/bin/python", "-m", "py_compile", str(f)])
            rec = dict(file=rel, line=row, col=col, old=old, new=new, kind=kind, text=ln.strip()[:160], mutated=lines[row - 1].strip()[:160])
            if rc != 0:
                continue
            env = dict(os.environ, VERIF_REPO=str(d), VERIF_TIER=a.tier, VERIF_EVIDENCE_DIR=".work/mutsurvey/evidence", VERIF_SEED=str(a.seed % 5))
            killed = None
            ran = []
            t0 = time.time()
            for c in (order_for(rel)[: len(owners_of(rel))] if a.owners_only else order_for(rel)):
                rc, so, se = run([str(VERIF / "check"), c], env=env, cwd=VERIF, timeout=2400)
                ran.append(f"{c}:{rc}")
                if rc == 1 and "VIOLATION" in so:
                    v = [l for l in so.splitlines() if l.startswith("VIOLATION")]
                    killed = c
                    rec["violation"] = v[0][:300] if v else ""
                    break
            rec.update(killed_by=killed, ran=ran, wall_s=round(time.time() - t0))
            if killed is None:
                e2 = dict(os.environ)
                e2.pop("VERIF_REPO", None)
                rc, so, se = run(["python3", str(VERIF / "tools/baseline_check.py"), str(d)], env=e2, timeout=1800)
                rec["suite"] = "passes" if rc == 0 else "FAILS (the repository's own tests kill it)"
                rec["suite_tail"] = so.strip().splitlines()[-1][:200] if so.strip() else ""
            with open(out, "a") as fh:
                fh.write(json.dumps(rec) + "\n")
            print(json.dumps({k: rec[k] for k in ("file", "line", "old", "new", "killed_by", "wall_s") if k in rec} | {"suite": rec.get("suite")}), flush=True)
            done += 1
        finally:
            _, hh, _ = run(["/venv/bin/python", "-c", "from yadmon import env; print(env.tree_hash())"], env=dict(os.environ, VERIF_REPO=str(d)), cwd=VERIF)
            shutil.rmtree(d, ignore_errors=True)
            hh = hh.strip().splitlines()[-1] if hh.strip() else ""
            if re.fullmatch(r"[0-9a-f]{20}", hh) and hh != own:
                for cd in (VERIF / ".work" / "nbcache").glob(hh + "-*"):
                    shutil.rmtree(cd, ignore_errors=True)


if __name__ == "__main__":
    main()
