#!/bin/bash
# usage: tools/seedregress.sh [tier]  -> every seeded change against the check that is recorded as catching it (its own property's check,
# or the owning check for the six that break a layer another property owns); prints one line per seed; exit 1 if any is not caught
tier=${1:-quick}
cd "$(dirname "$0")/.."
declare -A OTHER=( [C01-D]=C17 [C03-D]=C05 [C06-C]=C14 [C11-D]=C17 [C19-A]=C10 [C19-D]=C14 )
bad=0
for d in seeded/*/; do
  s=$(basename $d); p=${OTHER[$s]:-${s%%-*}}
  grep -q '"status": "neutralised' $d/meta.json && { echo "$s neutralised by a later repair: skipped"; continue; }
  r=$(tools/seedtest.sh $d/patch.diff $tier $p 2>&1 | grep '^== ')
  echo "$s $r"
  echo "$r" | grep -q "rc=1" || bad=$((bad+1))
done
echo "not caught: $bad"
exit $([ $bad -eq 0 ] && echo 0 || echo 1)
